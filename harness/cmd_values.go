package main

// C03 / C12 / C18 oracles on the implementation: generator contracts for every public constructor on
// hostile bitstreams, exact minimization boundaries, reachability / edges / fresh seeds.

import (
	"encoding/json"
	"flag"
	"fmt"
	"math"
	"math/bits"
	"os"
	"os/exec"
	"path/filepath"
	"reflect"
	"regexp"
	"runtime"
	"sort"
	"strings"
	"time"
	"unicode/utf8"

	"pgregory.net/rapid"
)

func init() {
	register("c03-oracle", cmdC03Oracle)
	register("c12-oracle", cmdC12Oracle)
	register("c18-oracle", cmdC18Oracle)
	register("baseseed", func([]string) { fmt.Println(rapid.VerifBaseSeed()) })
}

// ---------- C03 ----------
type contractCase struct {
	name string
	run  func(t *rapid.T) string // draws and returns "" or a description of the contract violation
}

func f64(r *Rng) float64 {
	switch r.intn(8) {
	case 0:
		return 0
	case 1:
		return math.Copysign(0, -1)
	case 2:
		return math.SmallestNonzeroFloat64 * float64(1+r.intn(3))
	case 3:
		return math.MaxFloat64
	case 4:
		return -math.MaxFloat64
	case 5:
		return math.Float64frombits(r.next())
	case 6:
		return float64(int64(r.next())>>uint(r.intn(64))) / float64(1+r.intn(1000))
	}
	return math.Inf(1 - 2*r.intn(2))
}

type mkStruct struct {
	A int8
	B []uint16
	C map[bool]string
	D *float32
	E [2]byte
	F struct{ X, Y int }
}

func genContractCase(r *Rng) contractCase {
	switch r.intn(28) {
	case 0, 1:
		a, b := int64(r.next())>>uint(r.intn(64)), int64(r.next())>>uint(r.intn(64))
		switch r.intn(4) {
		case 0:
			a = math.MinInt64
			b = a + int64(r.intn(3))
		case 1:
			b = math.MaxInt64
			a = b - int64(r.intn(3))
		case 2:
			b = a + int64(r.intn(2))
			if b < a {
				b = a
			}
		}
		if a > b {
			a, b = b, a
		}
		g := rapid.Int64Range(a, b)
		return contractCase{fmt.Sprintf("Int64Range(%d,%d)", a, b), func(t *rapid.T) string {
			v := g.Draw(t, "v")
			if v < a || v > b {
				return fmt.Sprintf("%d outside [%d,%d]", v, a, b)
			}
			return ""
		}}
	case 2:
		a, b := r.next()>>uint(r.intn(64)), r.next()>>uint(r.intn(64))
		if r.chance(30) {
			b = math.MaxUint64
			a = b - uint64(r.intn(3))
		}
		if a > b {
			a, b = b, a
		}
		g := rapid.Uint64Range(a, b)
		return contractCase{fmt.Sprintf("Uint64Range(%d,%d)", a, b), func(t *rapid.T) string {
			v := g.Draw(t, "v")
			if v < a || v > b {
				return fmt.Sprintf("%d outside [%d,%d]", v, a, b)
			}
			return ""
		}}
	case 3:
		a, b := int8(r.next()), int8(r.next())
		if a > b {
			a, b = b, a
		}
		g := rapid.Int8Range(a, b)
		return contractCase{fmt.Sprintf("Int8Range(%d,%d)", a, b), func(t *rapid.T) string {
			v := g.Draw(t, "v")
			if v < a || v > b {
				return fmt.Sprintf("%d outside [%d,%d]", v, a, b)
			}
			return ""
		}}
	case 4:
		m := int32(r.next())
		g1, g2 := rapid.Int32Min(m), rapid.Int32Max(m)
		return contractCase{fmt.Sprintf("Int32Min/Max(%d)", m), func(t *rapid.T) string {
			if v := g1.Draw(t, "v"); v < m {
				return fmt.Sprintf("Int32Min: %d < %d", v, m)
			}
			if v := g2.Draw(t, "w"); v > m {
				return fmt.Sprintf("Int32Max: %d > %d", v, m)
			}
			return ""
		}}
	case 5, 6:
		a, b := f64(r), f64(r)
		if a != a || b != b {
			a, b = 0, 1
		}
		if r.chance(30) {
			b = math.Nextafter(a, math.Inf(1))
		}
		if a > b {
			a, b = b, a
		}
		g := rapid.Float64Range(a, b)
		return contractCase{fmt.Sprintf("Float64Range(%x,%x)", math.Float64bits(a), math.Float64bits(b)), func(t *rapid.T) string {
			v := g.Draw(t, "v")
			if v != v {
				return "NaN"
			}
			if v < a || v > b {
				return fmt.Sprintf("%v outside [%v,%v]", v, a, b)
			}
			if math.IsInf(v, 0) && !math.IsInf(a, 0) && !math.IsInf(b, 0) {
				return "infinite value from finite bounds"
			}
			return ""
		}}
	case 7:
		a, b := float32(f64(r)), float32(f64(r))
		if a != a || b != b || math.IsInf(float64(a), 0) && math.IsInf(float64(b), 0) && a == b {
			a, b = -1, 1
		}
		if a > b {
			a, b = b, a
		}
		g := rapid.Float32Range(a, b)
		return contractCase{fmt.Sprintf("Float32Range(%v,%v)", a, b), func(t *rapid.T) string {
			v := g.Draw(t, "v")
			if v != v {
				return "NaN"
			}
			if v < a || v > b {
				return fmt.Sprintf("%v outside [%v,%v]", v, a, b)
			}
			return ""
		}}
	case 8, 9:
		minL, maxL := r.intn(4), -1
		if r.chance(70) {
			maxL = minL + r.intn(4)
		}
		dom := int64(1 + r.intn(4))
		distinct := r.chance(50)
		var g *rapid.Generator[[]int64]
		if distinct {
			g = rapid.SliceOfNDistinct(rapid.Int64Range(0, dom), minL, maxL, rapid.ID[int64])
		} else {
			g = rapid.SliceOfN(rapid.Int64Range(0, dom), minL, maxL)
		}
		return contractCase{fmt.Sprintf("SliceOfN(distinct=%v,[0,%d],%d,%d)", distinct, dom, minL, maxL), func(t *rapid.T) string {
			s := g.Draw(t, "s")
			if len(s) < minL || (maxL >= 0 && len(s) > maxL) {
				return fmt.Sprintf("length %d outside [%d,%d]", len(s), minL, maxL)
			}
			seen := map[int64]bool{}
			for _, x := range s {
				if x < 0 || x > dom {
					return "element outside its range"
				}
				if distinct && seen[x] {
					return "duplicate element in a distinct slice"
				}
				seen[x] = true
			}
			return ""
		}}
	case 10:
		minL, maxL := r.intn(3), -1
		if r.chance(70) {
			maxL = minL + r.intn(3)
		}
		g := rapid.MapOfN(rapid.Int8Range(0, int8(1+r.intn(4))), rapid.Bool(), minL, maxL)
		g2 := rapid.MapOfNValues(rapid.IntRange(0, 5), minL, maxL, func(v int) int { return v % 3 })
		return contractCase{fmt.Sprintf("MapOfN(%d,%d)", minL, maxL), func(t *rapid.T) string {
			m := g.Draw(t, "m")
			if len(m) < minL || (maxL >= 0 && len(m) > maxL) {
				return fmt.Sprintf("map size %d outside [%d,%d]", len(m), minL, maxL)
			}
			m2 := g2.Draw(t, "m2")
			if len(m2) < minL || (maxL >= 0 && len(m2) > maxL) {
				return fmt.Sprintf("MapOfNValues size %d outside [%d,%d]", len(m2), minL, maxL)
			}
			for k, v := range m2 {
				if v%3 != k {
					return "MapOfNValues key is not keyFn(value)"
				}
			}
			return ""
		}}
	case 11, 12, 13:
		minR, maxR, maxLen := r.intn(4), -1, -1
		if r.chance(70) {
			maxR = minR + r.intn(4)
		}
		if r.chance(60) {
			base := minR
			if maxR >= 0 {
				base = maxR
			}
			maxLen = base + r.intn(6)
		}
		var g *rapid.Generator[string]
		desc := ""
		switch r.intn(3) {
		case 0:
			g, desc = rapid.StringN(minR, maxR, maxLen), "StringN"
		case 1:
			g, desc = rapid.StringOfN(rapid.RuneFrom([]rune{'a', 'é', '世', '😀'}), minR, maxR, maxLen), "StringOfN(multi-byte)"
		default:
			g, desc = rapid.StringOfN(rapid.Rune(), minR, maxR, maxLen), "StringOfN(Rune)"
		}
		return contractCase{fmt.Sprintf("%s(%d,%d,%d)", desc, minR, maxR, maxLen), func(t *rapid.T) string {
			s := g.Draw(t, "s")
			n := utf8.RuneCountInString(s)
			if !utf8.ValidString(s) {
				return "invalid UTF-8"
			}
			if n < minR || (maxR >= 0 && n > maxR) {
				return fmt.Sprintf("%d runes outside [%d,%d]", n, minR, maxR)
			}
			if maxLen >= 0 && len(s) > maxLen {
				return fmt.Sprintf("%d bytes > maxLen %d", len(s), maxLen)
			}
			return ""
		}}
	case 14:
		exprs := []string{`[a-c]{2,4}`, `\d+-\w?`, `(ab|cd)*e`, `[^a-z]{1,3}`, `(?i)xyz[0-9]`, `.{0,3}\p{Greek}`}
		e := exprs[r.intn(len(exprs))]
		re := regexp.MustCompile(e)
		g, gb := rapid.StringMatching(e), rapid.SliceOfBytesMatching(e)
		return contractCase{"StringMatching(" + e + ")", func(t *rapid.T) string {
			if s := g.Draw(t, "s"); !re.MatchString(s) || !utf8.ValidString(s) {
				return fmt.Sprintf("%q does not match", s)
			}
			if b := gb.Draw(t, "b"); !re.Match(b) {
				return fmt.Sprintf("%q does not match (bytes)", b)
			}
			return ""
		}}
	case 15:
		n := 1 + r.intn(5)
		src := make([]int, n)
		for i := range src {
			src[i] = r.intn(100)
		}
		orig := append([]int(nil), src...)
		gs, gp := rapid.SampledFrom(src), rapid.Permutation(src)
		return contractCase{fmt.Sprintf("SampledFrom/Permutation(%d)", n), func(t *rapid.T) string {
			v := gs.Draw(t, "v")
			found := false
			for _, x := range orig {
				found = found || x == v
			}
			if !found {
				return "SampledFrom value is not in the slice"
			}
			p := gp.Draw(t, "p")
			a, b := append([]int(nil), p...), append([]int(nil), orig...)
			sort.Ints(a)
			sort.Ints(b)
			if !reflect.DeepEqual(a, b) {
				return "Permutation is not a permutation"
			}
			if !reflect.DeepEqual(src, orig) {
				return "input slice was modified"
			}
			// the value belongs to the caller: changing it must not reach the generator's input
			for i := range p {
				p[i] = -1
			}
			if !reflect.DeepEqual(src, orig) {
				return "the drawn permutation aliases the generator's input slice"
			}
			return ""
		}}
	case 16:
		k := 2 + r.intn(3)
		g := rapid.IntRange(0, 20).Filter(func(v int) bool { return v%k == 0 })
		gp := rapid.Ptr(rapid.Int(), false)
		go1 := rapid.OneOf(rapid.Just(1), rapid.IntRange(5, 6))
		return contractCase{"Filter/Ptr/OneOf/Just", func(t *rapid.T) string {
			if v := g.Draw(t, "v"); v%k != 0 {
				return "filter predicate does not hold"
			}
			if p := gp.Draw(t, "p"); p == nil {
				return "nil pointer although nil is disallowed"
			}
			if v := go1.Draw(t, "o"); v != 1 && v != 5 && v != 6 {
				return "OneOf value from no alternative"
			}
			return ""
		}}
	case 17:
		g := rapid.Make[mkStruct]()
		return contractCase{"Make[struct]", func(t *rapid.T) string {
			v := g.Draw(t, "v")
			if reflect.TypeOf(v) != reflect.TypeOf(mkStruct{}) {
				return "wrong dynamic type"
			}
			for _, s := range v.C {
				if !utf8.ValidString(s) {
					return "Make produced invalid UTF-8"
				}
			}
			if v.D != nil && *v.D != *v.D {
				return "Make produced NaN"
			}
			return ""
		}}
	case 18:
		g := rapid.Custom(func(t *rapid.T) [2]int {
			a := rapid.IntRange(0, 9).Draw(t, "a")
			b := rapid.IntRange(a, 9).Draw(t, "b")
			return [2]int{a, b}
		})
		gm := rapid.Map(g, func(p [2]int) int { return p[1] - p[0] })
		return contractCase{"Custom/Map", func(t *rapid.T) string {
			if d := gm.Draw(t, "d"); d < 0 || d > 9 {
				return "Map(Custom) out of contract"
			}
			return ""
		}}
	case 19:
		g := rapid.Rune()
		g2 := rapid.RuneFrom([]rune{'x', 'y'})
		return contractCase{"Rune/RuneFrom", func(t *rapid.T) string {
			if c := g.Draw(t, "r"); !utf8.ValidRune(c) {
				return "invalid rune"
			}
			if c := g2.Draw(t, "r2"); c != 'x' && c != 'y' {
				return "RuneFrom outside the set"
			}
			return ""
		}}
	case 20:
		a, b := uint8(r.next()), uint8(r.next())
		if a > b {
			a, b = b, a
		}
		g, g2 := rapid.ByteRange(a, b), rapid.Uint16Max(uint16(b)*100)
		return contractCase{fmt.Sprintf("ByteRange(%d,%d)", a, b), func(t *rapid.T) string {
			if v := g.Draw(t, "v"); v < a || v > b {
				return "ByteRange out of range"
			}
			if v := g2.Draw(t, "w"); v > uint16(b)*100 {
				return "Uint16Max out of range"
			}
			return ""
		}}
	case 21, 22:
		// rune generators that can yield values which are not code points (negative, surrogates, > MaxRune)
		lo, hi := int32(-3), int32('z')
		switch r.intn(3) {
		case 1:
			lo, hi = 0xD7FE, 0xE001 // straddles the surrogate range
		case 2:
			lo, hi = 0x10FFFE, 0x110002 // straddles MaxRune
		}
		minR, maxR := r.intn(3), -1
		if r.chance(70) {
			maxR = minR + r.intn(4)
		}
		maxLen := -1
		if r.chance(70) {
			base := minR
			if maxR >= 0 {
				base = maxR
			}
			maxLen = base + r.intn(6)
		}
		g := rapid.StringOfN(rapid.Int32Range(lo, hi), minR, maxR, maxLen)
		return contractCase{fmt.Sprintf("StringOfN(Int32Range(%d,%d),%d,%d,%d)", lo, hi, minR, maxR, maxLen), func(t *rapid.T) string {
			s := g.Draw(t, "s")
			if !utf8.ValidString(s) {
				return "invalid UTF-8"
			}
			n := 0
			for _, c := range s {
				n++
				if c < lo || c > hi {
					return fmt.Sprintf("rune %U is not a value of the element generator", c)
				}
			}
			if n < minR || (maxR >= 0 && n > maxR) {
				return fmt.Sprintf("%d runes outside [%d,%d]", n, minR, maxR)
			}
			if maxLen >= 0 && len(s) > maxLen {
				return fmt.Sprintf("%d bytes > maxLen %d", len(s), maxLen)
			}
			return ""
		}}
	case 23:
		// degenerate inputs: empty / nil / one-element domains, zero lengths
		var empty []int
		gp0, gp1 := rapid.Permutation(empty), rapid.Permutation([]int{7})
		gs0 := rapid.SliceOfN(rapid.Int(), 0, 0)
		gm0 := rapid.MapOfN(rapid.Int(), rapid.Int(), 0, 0)
		gst0 := rapid.StringN(0, 0, 0)
		gd1 := rapid.SliceOfNDistinct(rapid.Just(1), 0, 1, rapid.ID[int])
		return contractCase{"degenerate(Permutation(nil),len 0,one-element)", func(t *rapid.T) string {
			if p := gp0.Draw(t, "p0"); len(p) != 0 {
				return "Permutation of an empty slice is not empty"
			}
			if p := gp1.Draw(t, "p1"); len(p) != 1 || p[0] != 7 {
				return "Permutation of a one-element slice"
			}
			if v := gs0.Draw(t, "s0"); len(v) != 0 {
				return "SliceOfN(0,0) not empty"
			}
			if v := gm0.Draw(t, "m0"); len(v) != 0 {
				return "MapOfN(0,0) not empty"
			}
			if v := gst0.Draw(t, "st0"); v != "" {
				return "StringN(0,0,0) not empty"
			}
			if v := gd1.Draw(t, "d1"); len(v) > 1 {
				return "distinct slice over a one-element domain has duplicates"
			}
			return ""
		}}
	case 27:
		// defined types that are named like their kind ("int8", "string", ...), as a user package may well declare:
		// the requested dynamic type, also as field, element and key
		gk := makeKindNamed()
		return contractCase{"Make[types named like their kind]", func(t *rapid.T) string { return gk(t) }}
	case 25:
		// two distinct types with the same name (reflect.Type.String() is not a key): the requested dynamic type
		ga, gb := makeSameNameA(), makeSameNameB()
		return contractCase{"Make[two types named T]", func(t *rapid.T) string {
			if a := ga(t); a != "main.T{A int8}" {
				return "Make returned a value of another type: " + a
			}
			if b := gb(t); b != "main.T{B string}" {
				return "Make returned a value of another type: " + b
			}
			return ""
		}}
	case 24:
		// Make for container types: requested dynamic type, element contracts
		gm := rapid.Make[map[int8][]uint8]()
		ga := rapid.Make[[3]*bool]()
		return contractCase{"Make[map/array]", func(t *rapid.T) string {
			if v := gm.Draw(t, "m"); reflect.TypeOf(v) != reflect.TypeOf(map[int8][]uint8{}) {
				return "wrong dynamic type"
			}
			if v := ga.Draw(t, "a"); len(v) != 3 {
				return "wrong array length"
			}
			return ""
		}}
	}
	g := rapid.SliceOfN(rapid.SliceOfN(rapid.Bool(), 0, 2), 1, 2)
	return contractCase{"SliceOfN(SliceOfN(Bool))", func(t *rapid.T) string {
		s := g.Draw(t, "s")
		if len(s) < 1 || len(s) > 2 {
			return "outer length"
		}
		for _, x := range s {
			if len(x) > 2 {
				return "inner length"
			}
		}
		return ""
	}}
}

func cmdC03Oracle(args []string) {
	fs := flag.NewFlagSet("c03-oracle", flag.ExitOnError)
	n := fs.Int("n", 2000, "cases")
	seed := fs.Uint64("seed", 1, "generator seed")
	only := fs.Int("only", -1, "just this index")
	_ = fs.Parse(args)
	stats := map[string]int{}
	var fails []map[string]any
	var samples []string
	for i := 0; i < *n; i++ {
		if *only >= 0 && i != *only {
			continue
		}
		r := &Rng{s: *seed*3000017 + uint64(i)}
		c := genContractCase(r)
		for k := 0; k < 6; k++ {
			var msg string
			prop := func(t *rapid.T) { msg = c.run(t) }
			var e rapid.VerifError
			src := ""
			done := make(chan struct{})
			go func() {
				defer close(done)
				if k < 2 {
					s := r.next()
					src = fmt.Sprintf("seed %d", s)
					e, _ = rapid.VerifRunSeed(nil, s, false, prop)
				} else {
					ws := GenWords(r, r.intn(60))
					src = fmt.Sprintf("words %v", ws)
					e, _ = rapid.VerifRunBuf(nil, ws, false, prop)
				}
			}()
			select {
			case <-done:
			case <-time.After(20 * time.Second):
				fails = append(fails, map[string]any{"property": "C03", "what": "a generator hangs", "case": c.name, "source": src, "index": i})
				continue
			}
			stats["runs"]++
			stats["outcome_"+map[string]string{"": "ok", "invalid": "invalid", "stop": "stop", "panic": "panic"}[e.Kind]]++
			switch {
			case e.Kind == "panic" || e.Kind == "stop":
				fails = append(fails, map[string]any{"property": "C03", "what": "a built-in generator failed an internal assertion or panicked", "case": c.name, "source": src, "detail": e.Msg, "index": i})
			case e.Kind == "" && msg != "":
				fails = append(fails, map[string]any{"property": "C03", "what": "a generated value violates its generator's contract", "case": c.name, "source": src, "detail": msg, "index": i})
			}
		}
		stats["cases"]++
		stats["kind:"+strings.SplitN(c.name, "(", 2)[0]]++
		if len(samples) < 3 {
			samples = append(samples, c.name)
		}
	}
	js, _ := json.Marshal(map[string]any{"stats": stats, "failures": fails, "samples": samples})
	fmt.Println(string(js))
}

// ---------- C12 ----------
type intKind struct {
	name   string
	signed bool
	bits   int
	draw   func(t *rapid.T) (int64, uint64)
}

var intKinds = []intKind{
	{"Int", true, 64, func(t *rapid.T) (int64, uint64) { return int64(rapid.Int().Draw(t, "v")), 0 }},
	{"Int8", true, 8, func(t *rapid.T) (int64, uint64) { return int64(rapid.Int8().Draw(t, "v")), 0 }},
	{"Int16", true, 16, func(t *rapid.T) (int64, uint64) { return int64(rapid.Int16().Draw(t, "v")), 0 }},
	{"Int32", true, 32, func(t *rapid.T) (int64, uint64) { return int64(rapid.Int32().Draw(t, "v")), 0 }},
	{"Int64", true, 64, func(t *rapid.T) (int64, uint64) { return rapid.Int64().Draw(t, "v"), 0 }},
	{"Uint", false, 64, func(t *rapid.T) (int64, uint64) { return 0, uint64(rapid.Uint().Draw(t, "v")) }},
	{"Uint8", false, 8, func(t *rapid.T) (int64, uint64) { return 0, uint64(rapid.Uint8().Draw(t, "v")) }},
	{"Uint16", false, 16, func(t *rapid.T) (int64, uint64) { return 0, uint64(rapid.Uint16().Draw(t, "v")) }},
	{"Uint32", false, 32, func(t *rapid.T) (int64, uint64) { return 0, uint64(rapid.Uint32().Draw(t, "v")) }},
	{"Uint64", false, 64, func(t *rapid.T) (int64, uint64) { return 0, rapid.Uint64().Draw(t, "v") }},
	{"Byte", false, 8, func(t *rapid.T) (int64, uint64) { return 0, uint64(rapid.Byte().Draw(t, "v")) }},
}

// failHow: the ways a property can fail; the message of 1 and 2 depends on the drawn data
func failHow(t *rapid.T, how int, data string) {
	switch how {
	case 1:
		panic("beyond: " + data)
	case 2:
		t.Errorf("beyond: %s", data)
	default:
		t.Fatalf("beyond")
	}
}

// runThreshold runs Check on "fails iff value at or beyond T" and returns the value of the final replay
// shrinkBudget: "given enough time" - a mismatch is only reported after a second run with a six times larger budget
var shrinkBudget = 10 * time.Second

func runThreshold(k intKind, neg bool, thr uint64, seed uint64, how int) (got string, want string, verdict string) {
	var lastI int64
	var lastU uint64
	prop := func(t *rapid.T) {
		i, u := k.draw(t)
		lastI, lastU = i, u
		fail := func() { failHow(t, how, fmt.Sprint(i, u)) }
		if k.signed {
			if neg {
				if i <= -int64(thr) && thr != 0 || (thr == 1<<63 && i == math.MinInt64) {
					fail()
				}
			} else if i >= 0 && uint64(i) >= thr {
				fail()
			}
		} else if u >= thr {
			fail()
		}
	}
	old := setFlags(300, seed, shrinkBudget, true)
	defer rapid.VerifSetFlags(old)
	tb := &recTB{name: "T"}
	runTB(func() { rapid.Check(tb, prop) })
	verdict, _, _, _, _ = classifyTB(tb)
	if k.signed {
		if neg {
			want = fmt.Sprint(-int64(thr))
			if thr == 1<<63 {
				want = fmt.Sprint(int64(math.MinInt64))
			}
		} else {
			want = fmt.Sprint(int64(thr))
		}
		got = fmt.Sprint(lastI)
	} else {
		want, got = fmt.Sprint(thr), fmt.Sprint(lastU)
	}
	return
}

func cmdC12Oracle(args []string) {
	fs := flag.NewFlagSet("c12-oracle", flag.ExitOnError)
	n := fs.Int("n", 150, "number of (kind, threshold) combinations, sampled")
	seed := fs.Uint64("seed", 1, "generator seed")
	lens := fs.Int("lens", 12, "number of collection-length cases")
	only := fs.Int("only", -999999, "report just the failure with this index (replay)")
	_ = fs.Parse(args)
	stats := map[string]int{}
	var fails []map[string]any
	var samples []string
	r := &Rng{s: *seed * 2000003}
	// always: the top of the 64-bit kinds (thresholds that need the full bit length, the type extremes)
	for c, fx := range []struct {
		kind string
		neg  bool
		thr  uint64
	}{{"Uint64", false, 1 << 63}, {"Uint64", false, 1<<63 + 12345}, {"Uint64", false, math.MaxUint64 - 1}, {"Uint64", false, math.MaxUint64},
		{"Uint", false, 1<<63 + 1}, {"Int64", false, 1<<62 + 1}, {"Int64", false, math.MaxInt64}, {"Int64", true, 1 << 63}, {"Int64", true, 1<<62 + 7}, {"Int", true, 1<<63 - 1}} {
		var k intKind
		for _, ik := range intKinds {
			if ik.name == fx.kind {
				k = ik
			}
		}
		sd := r.next() | 1
		how := c % 3
		got, want, verdict := runThreshold(k, fx.neg, fx.thr, sd, how)
		if got != want && (verdict == "failed" || verdict == "panic") {
			shrinkBudget = 60 * time.Second
			got, want, verdict = runThreshold(k, fx.neg, fx.thr, sd, how)
			shrinkBudget = 10 * time.Second
			stats["retried_with_longer_budget"]++
		}
		stats["fixed_top_thresholds"]++
		if verdict != "failed" && verdict != "panic" {
			stats["not_found_in_300_cases"]++
			continue
		}
		if got != want {
			fails = append(fails, map[string]any{"property": "C12", "what": "minimization does not reach the exact integer boundary", "kind": k.name,
				"negative": fx.neg, "threshold": want, "reported": got, "seed": sd, "index": 5000 + c})
		}
	}
	for c := 0; c < *n; c++ {
		k := intKinds[r.intn(len(intKinds))]
		maxBits := k.bits
		if k.signed {
			maxBits--
		}
		j := r.intn(maxBits + 1)
		var thr uint64
		if j == maxBits && k.signed {
			thr = 1 << uint(j) // only valid for the negative direction (MinInt)
		} else if j >= 64 {
			thr = math.MaxUint64
		} else {
			thr = 1 << uint(j)
		}
		switch r.intn(4) {
		case 0:
			if thr > 1 {
				thr--
			}
		case 1:
			if bits.Len64(thr+1) <= maxBits && thr+1 != 0 {
				thr++
			}
		case 2:
			if j > 2 && j < 64 {
				thr += r.next() % (uint64(1) << uint(j-1))
			}
		}
		neg := k.signed && r.chance(50)
		if k.signed && !neg && thr > (uint64(1)<<uint(maxBits))-1 {
			thr = (uint64(1) << uint(maxBits)) - 1
		}
		if k.signed && neg && thr > uint64(1)<<uint(maxBits) {
			thr = uint64(1) << uint(maxBits)
		}
		if !k.signed && maxBits < 64 && thr > (uint64(1)<<uint(maxBits))-1 {
			thr = (uint64(1) << uint(maxBits)) - 1
		}
		if thr == 0 && neg {
			thr = 1
		}
		sd := r.next() | 1
		how := r.intn(3)
		got, want, verdict := runThreshold(k, neg, thr, sd, how)
		if got != want && (verdict == "failed" || verdict == "panic") {
			shrinkBudget = 60 * time.Second
			got, want, verdict = runThreshold(k, neg, thr, sd, how)
			shrinkBudget = 10 * time.Second
			stats["retried_with_longer_budget"]++
		}
		if verdict == "panic" {
			verdict = "failed"
		}
		stats["thresholds"]++
		stats[fmt.Sprintf("fail_how_%d", how)]++
		stats["bits:"+fmt.Sprint(bits.Len64(thr))]++
		if verdict != "failed" {
			stats["not_found_in_300_cases"]++ // the failing region was not hit: nothing to minimize (C18 territory)
			continue
		}
		stats["minimized"]++
		if got != want {
			fails = append(fails, map[string]any{"property": "C12", "what": "minimization does not reach the exact integer boundary", "kind": k.name,
				"negative": neg, "threshold": want, "reported": got, "seed": sd, "index": c})
		}
		if len(samples) < 3 {
			samples = append(samples, fmt.Sprintf("%s fails beyond %s (seed %d): reported %s", k.name, want, sd, got))
		}
	}
	// collections: fails iff at least k elements
	for c := 0; c < *lens; c++ {
		k := r.intn(33)
		which := r.intn(3)
		sd := r.next() | 1
		var lastLen int
		var allZero bool
		howc := r.intn(3)
		prop := func(t *rapid.T) {
			switch which {
			case 0:
				s := rapid.SliceOf(rapid.Int64()).Draw(t, "s")
				lastLen, allZero = len(s), true
				for _, x := range s {
					allZero = allZero && x == 0
				}
			case 1:
				s := rapid.String().Draw(t, "s")
				lastLen, allZero = utf8.RuneCountInString(s), true
			default:
				m := rapid.MapOf(rapid.Int32(), rapid.Bool()).Draw(t, "m")
				lastLen, allZero = len(m), true
			}
			if lastLen >= k {
				failHow(t, howc, fmt.Sprint(lastLen))
			}
		}
		old := setFlags(400, sd, 10*time.Second, true)
		tb := &recTB{name: "T"}
		runTB(func() { rapid.Check(tb, prop) })
		rapid.VerifSetFlags(old)
		verdict, _, _, _, _ := classifyTB(tb)
		stats["collection_thresholds"]++
		if verdict != "failed" && verdict != "panic" {
			stats["collection_not_found"]++
			continue
		}
		if lastLen != k || !allZero {
			fails = append(fails, map[string]any{"property": "C12", "what": "minimization does not reach a collection of exactly k elements", "which": []string{"SliceOf(Int64)", "String", "MapOf"}[which],
				"k": k, "reported_len": lastLen, "all_zero": allZero, "seed": sd, "index": 1000 + c})
		}
	}
	if *only != -999999 {
		var keep []map[string]any
		for _, f := range fails {
			if fmt.Sprint(f["index"]) == fmt.Sprint(*only) {
				keep = append(keep, f)
			}
		}
		fails = keep
	}
	js, _ := json.Marshal(map[string]any{"stats": stats, "failures": fails, "samples": samples})
	fmt.Println(string(js))
}

// ---------- C18 ----------
func leastK(bitlen int, n uint64) (uint64, bool) {
	lo, hi := uint64(0), uint64(1)<<53
	for lo < hi {
		mid := lo + (hi-lo)/2
		if rapid.VerifGeom(bitlen, mid) >= n {
			hi = mid
		} else {
			lo = mid + 1
		}
	}
	return lo, lo < uint64(1)<<53 && rapid.VerifGeom(bitlen, lo) == n
}

func cmdC18Oracle(args []string) {
	fs := flag.NewFlagSet("c18-oracle", flag.ExitOnError)
	seed := fs.Uint64("seed", 1, "generator seed")
	nReach := fs.Int("reach", 300, "reachability witnesses to replay")
	nEdge := fs.Int("edges", 40, "ranges for the edge-hit sampling")
	draws := fs.Int("draws", 4000, "draws per range")
	procs := fs.Int("procs", 6, "processes for the fresh-seed check")
	only := fs.Int("only", -999999, "report just the failure with this index (replay)")
	_ = fs.Parse(args)
	stats := map[string]int{}
	var fails []map[string]any
	r := &Rng{s: *seed * 1000033}
	// (a) reachability: the stream [k_n; v] makes Uint64Range(0,max) return v, for sampled (max, v) incl. the
	//     former dead band and 8-bit ranges
	for c := 0; c < *nReach; c++ {
		var max, v uint64
		switch r.intn(4) {
		case 0:
			max = uint64(r.intn(256))
			v = uint64(r.intn(int(max) + 1))
		case 1:
			max = math.MaxUint64 - uint64(r.intn(3))
			v = uint64(1)<<63 + r.next()>>1
			if v > max {
				v = max
			}
		case 2:
			b := 56 + r.intn(9)
			if b >= 64 {
				max = math.MaxUint64
			} else {
				max = uint64(1)<<uint(b) - 1 - uint64(r.intn(5))
			}
			v = max - r.next()%(max/2+1)
		default:
			max = r.next() >> uint(r.intn(64))
			v = r.next() % (max/1 + 1)
			if max != math.MaxUint64 {
				v = r.next() % (max + 1)
			}
		}
		n := uint64(bits.Len64(v))
		if n == 0 {
			n = 1
		}
		k, ok := leastK(bits.Len64(max), n)
		stats["reach_witnesses"]++
		if !ok {
			fails = append(fails, map[string]any{"property": "C18", "what": "no bias word selects the bit length needed for a value", "max": max, "value": v, "index": c})
			continue
		}
		var got uint64
		g := rapid.Uint64Range(0, max)
		e, _ := rapid.VerifRunBuf(nil, []uint64{k, v}, false, func(t *rapid.T) { got = g.Draw(t, "v") })
		if e.Kind != "" || got != v {
			fails = append(fails, map[string]any{"property": "C18", "what": "an allowed value is unreachable: the witness stream does not produce it", "max": max, "value": v,
				"stream": []uint64{k, v}, "got": got, "outcome": e.Kind, "index": c})
		}
	}
	// (b) the top half of Uint64 / the bottom half of Int64 are actually produced by the PRNG
	{
		g := rapid.Uint64()
		top := 0
		for s := 0; s < 60000; s++ {
			if v := g.Example(s); v >= 1<<63 && v < math.MaxUint64 {
				top++
			}
		}
		stats["uint64_examples_in_top_half_of_60000"] = top
		if top == 0 {
			fails = append(fails, map[string]any{"property": "C18", "what": "an allowed value is unreachable: no Uint64() example in [2^63, 2^64-2] among 60000 seeds", "index": -2})
		}
	}
	// (c) edges within a few thousand draws
	for c := 0; c < *nEdge; c++ {
		a, b := int64(r.next())>>uint(r.intn(64)), int64(r.next())>>uint(r.intn(64))
		if r.chance(30) {
			a = math.MinInt64
		}
		if r.chance(30) {
			b = math.MaxInt64
		}
		if a > b {
			a, b = b, a
		}
		g := rapid.Int64Range(a, b)
		sawMin, sawMax, sawZero := false, false, !(a <= 0 && 0 <= b)
		for s := 0; s < *draws && !(sawMin && sawMax && sawZero); s++ {
			v := g.Example(s + c*100000)
			sawMin = sawMin || v == a
			sawMax = sawMax || v == b
			sawZero = sawZero || v == 0
		}
		stats["edge_ranges"]++
		if !(sawMin && sawMax && sawZero) {
			fails = append(fails, map[string]any{"property": "C18", "what": "a range boundary (min, max or 0) is not produced within the draw budget", "min": a, "max": b,
				"saw_min": sawMin, "saw_max": sawMax, "saw_zero": sawZero, "index": 2000 + c})
		}
		fa, fb := f64(r), f64(r)
		if fa != fa || fb != fb {
			continue
		}
		if fa > fb {
			fa, fb = fb, fa
		}
		gf := rapid.Float64Range(fa, fb)
		fMin, fMax := false, false
		for s := 0; s < *draws && !(fMin && fMax); s++ {
			v := gf.Example(s + c*100000)
			fMin = fMin || v == fa
			fMax = fMax || v == fb
		}
		stats["float_edge_ranges"]++
		if !(fMin && fMax) {
			fails = append(fails, map[string]any{"property": "C18", "what": "a float range boundary is not produced within the draw budget", "min": fa, "max": fb, "index": 3000 + c})
		}
	}
	// (c0) the extremes of every integer kind, and of ranges that end at a type extreme, within the draw budget
	{
		type ext struct {
			name string
			hit  func(seed int) (bool, bool)
		}
		u64 := func(name string, g *rapid.Generator[uint64], lo, hi uint64) ext {
			return ext{name, func(s int) (bool, bool) { v := g.Example(s); return v == lo, v == hi }}
		}
		i64 := func(name string, g *rapid.Generator[int64], lo, hi int64) ext {
			return ext{name, func(s int) (bool, bool) { v := g.Example(s); return v == lo, v == hi }}
		}
		half := uint64(1) << 63
		exts := []ext{
			u64("Uint64()", rapid.Uint64(), 0, math.MaxUint64),
			u64("Uint64Min(5)", rapid.Uint64Min(5), 5, math.MaxUint64),
			u64("Uint64Min(2^63-1)", rapid.Uint64Min(half-1), half-1, math.MaxUint64),
			u64("Uint64Min(2^63)", rapid.Uint64Min(half), half, math.MaxUint64),
			u64("Uint64Max(2^63)", rapid.Uint64Max(half), 0, half),
			u64("Uint64Max(2^64-2)", rapid.Uint64Max(math.MaxUint64-1), 0, math.MaxUint64-1),
			u64("Uint64Range(1,2^64-1)", rapid.Uint64Range(1, math.MaxUint64), 1, math.MaxUint64),
			i64("Int64()", rapid.Int64(), math.MinInt64, math.MaxInt64),
			i64("Int64Range(MinInt64,0)", rapid.Int64Range(math.MinInt64, 0), math.MinInt64, 0),
			i64("Int64Range(MinInt64,-1)", rapid.Int64Range(math.MinInt64, -1), math.MinInt64, -1),
			i64("Int64Range(MinInt64+1,7)", rapid.Int64Range(math.MinInt64+1, 7), math.MinInt64+1, 7),
			i64("Int64Max(0)", rapid.Int64Max(0), math.MinInt64, 0),
			i64("Int64Min(0)", rapid.Int64Min(0), 0, math.MaxInt64),
			{"Uint()", func(s int) (bool, bool) { v := rapid.Uint().Example(s); return v == 0, v == math.MaxUint }},
			{"Uintptr()", func(s int) (bool, bool) { v := rapid.Uintptr().Example(s); return v == 0, v == math.MaxUint }},
			{"Int()", func(s int) (bool, bool) { v := rapid.Int().Example(s); return v == math.MinInt, v == math.MaxInt }},
			{"Uint32()", func(s int) (bool, bool) { v := rapid.Uint32().Example(s); return v == 0, v == math.MaxUint32 }},
			{"Int32()", func(s int) (bool, bool) { v := rapid.Int32().Example(s); return v == math.MinInt32, v == math.MaxInt32 }},
			{"Uint16()", func(s int) (bool, bool) { v := rapid.Uint16().Example(s); return v == 0, v == math.MaxUint16 }},
			{"Int16()", func(s int) (bool, bool) { v := rapid.Int16().Example(s); return v == math.MinInt16, v == math.MaxInt16 }},
			{"Uint8()", func(s int) (bool, bool) { v := rapid.Uint8().Example(s); return v == 0, v == math.MaxUint8 }},
			{"Int8()", func(s int) (bool, bool) { v := rapid.Int8().Example(s); return v == math.MinInt8, v == math.MaxInt8 }},
			{"Byte()", func(s int) (bool, bool) { v := rapid.Byte().Example(s); return v == 0, v == 255 }},
		}
		for i, e := range exts {
			lo, hi := false, false
			for s := 0; s < *draws && !(lo && hi); s++ {
				a, b := e.hit(s + int(*seed)*1000003)
				lo, hi = lo || a, hi || b
			}
			stats["kind_extreme_generators"]++
			if !(lo && hi) {
				fails = append(fails, map[string]any{"property": "C18", "what": "a range boundary (min, max or 0) is not produced within the draw budget", "generator": e.name,
					"saw_min": lo, "saw_max": hi, "index": 8000 + i})
			}
		}
	}
	// (c') every float of a tiny range (2..32 adjacent values, anywhere on the number line) is produced
	for c := 0; c < *nEdge; c++ {
		k32 := uint32(pick(r, 1, 2, 3, 4, 7, 8, 15, 16, 31))
		b32 := uint32(r.next()) & 0x7f7fffff
		if b32+k32 >= 0x7f800000 {
			b32 = 0x3f800000
		}
		x32, y32 := math.Float32frombits(b32), math.Float32frombits(b32+k32)
		if r.chance(50) {
			x32, y32 = -y32, -x32
		}
		g32 := rapid.Float32Range(x32, y32)
		seen32 := map[float32]bool{}
		for s := 0; s < *draws && len(seen32) < int(k32)+1; s++ {
			seen32[g32.Example(s+c*100003)] = true
		}
		stats["tiny_float32_ranges"]++
		if len(seen32) != int(k32)+1 {
			fails = append(fails, map[string]any{"property": "C18", "what": "an allowed value is unreachable: not every float32 of a tiny range is produced within the draw budget",
				"min": x32, "max": y32, "values": int(k32) + 1, "seen": len(seen32), "index": 6000 + c})
		}
		k64 := uint64(pick(r, 1, 2, 3, 4, 7, 8, 15, 16, 31))
		b64 := r.next() & 0x7fefffffffffffff
		if b64+k64 >= 0x7ff0000000000000 {
			b64 = 0x3ff0000000000000
		}
		x64, y64 := math.Float64frombits(b64), math.Float64frombits(b64+k64)
		if r.chance(50) {
			x64, y64 = -y64, -x64
		}
		g64 := rapid.Float64Range(x64, y64)
		seen64 := map[float64]bool{}
		for s := 0; s < *draws && len(seen64) < int(k64)+1; s++ {
			seen64[g64.Example(s+c*100003)] = true
		}
		stats["tiny_float64_ranges"]++
		if len(seen64) != int(k64)+1 {
			fails = append(fails, map[string]any{"property": "C18", "what": "an allowed value is unreachable: not every float64 of a tiny range is produced within the draw budget",
				"min": x64, "max": y64, "values": int(k64) + 1, "seen": len(seen64), "index": 7000 + c})
		}
	}
	// (d) fresh seeds: Check calls without -rapid.seed in one process, and across processes
	{
		old := rapid.VerifGetFlags()
		f := old
		f.Seed, f.Checks, f.NoFailFile = 0, 6, true
		rapid.VerifSetFlags(f)
		seen := map[string]int{}
		for k := 0; k < 12; k++ {
			// a test case is identified by its first 16 draws (one biased draw alone collides by chance)
			var firsts []string
			tb := &recTB{name: "T"}
			runTB(func() {
				rapid.Check(tb, func(t *rapid.T) {
					firsts = append(firsts, fmt.Sprint(rapid.SliceOfN(rapid.Uint64(), 16, 16).Draw(t, "v")))
				})
			})
			seen[fmt.Sprint(firsts)]++
			dup := map[string]bool{}
			for _, x := range firsts {
				if dup[x] {
					fails = append(fails, map[string]any{"property": "C18", "what": "test cases within one run repeat", "draws": firsts, "index": 4000 + k})
				}
				dup[x] = true
			}
		}
		rapid.VerifSetFlags(old)
		// the same with a stale fail file in the test's directory (replayed, passes): the random phase is as fresh as ever
		{
			cwd, _ := os.Getwd()
			dir, err := os.MkdirTemp("", "verif-c18-")
			if err == nil {
				ffdir := filepath.Join(dir, "testdata", "rapid", "T")
				_ = os.MkdirAll(ffdir, 0o755)
				_ = rapid.VerifSaveFailFile(filepath.Join(ffdir, "T-20260101000000-1.fail"), rapid.VerifRapidVersion(), []byte("stale\n"), 12345, make([]uint64, 64))
				f2 := old
				f2.Seed, f2.Checks, f2.NoFailFile = 0, 6, false
				rapid.VerifSetFlags(f2)
				_ = os.Chdir(dir)
				seenS := map[string]int{}
				for k := 0; k < 8; k++ {
					var firsts []string
					tb := &recTB{name: "T"}
					runTB(func() {
						rapid.Check(tb, func(t *rapid.T) {
							firsts = append(firsts, fmt.Sprint(rapid.SliceOfN(rapid.Uint64(), 16, 16).Draw(t, "v")))
						})
					})
					if len(firsts) > 1 {
						seenS[fmt.Sprint(firsts[1:])]++ // the first invocation is the replay of the stale file
					}
				}
				_ = os.Chdir(cwd)
				rapid.VerifSetFlags(old)
				_ = os.RemoveAll(dir)
				stats["check_calls_with_stale_fail_file"] = 8
				stats["distinct_case_sequences_with_stale_fail_file"] = len(seenS)
				if len(seenS) < 8 {
					fails = append(fails, map[string]any{"property": "C18", "what": "Check calls without -rapid.seed repeat a fixed sequence of test cases when a stale fail file is present", "distinct": len(seenS), "of": 8, "index": -6})
				}
			}
		}
		stats["check_calls_in_process"] = 12
		stats["distinct_case_sequences"] = len(seen)
		if len(seen) < 12 {
			fails = append(fails, map[string]any{"property": "C18", "what": "Check calls without -rapid.seed repeat a fixed sequence of test cases within one process", "distinct": len(seen), "index": -3})
		}
		// many base seeds drawn in one process are pairwise different (a counter that wraps, a cached seed ... repeat)
		many := map[uint64]bool{}
		for k := 0; k < 2000; k++ {
			many[rapid.VerifBaseSeed()] = true
		}
		stats["base_seeds_drawn_in_process"] = 2000
		stats["distinct_base_seeds_in_process"] = len(many)
		if len(many) < 2000 {
			fails = append(fails, map[string]any{"property": "C18", "what": "base seeds repeat within one process", "distinct": len(many), "of": 2000, "index": -5})
		}
		exe, _ := os.Executable()
		seeds := map[string]bool{}
		for k := 0; k < *procs; k++ {
			out, err := exec.Command(exe, "baseseed").Output()
			if err == nil {
				seeds[strings.TrimSpace(string(out))] = true
			}
		}
		stats["processes"] = *procs
		stats["distinct_base_seeds_across_processes"] = len(seeds)
		if len(seeds) < *procs {
			fails = append(fails, map[string]any{"property": "C18", "what": "base seeds repeat across processes", "distinct": len(seeds), "index": -4})
		}
	}
	if *only != -999999 {
		var keep []map[string]any
		for _, f := range fails {
			if fmt.Sprint(f["index"]) == fmt.Sprint(*only) {
				keep = append(keep, f)
			}
		}
		fails = keep
	}
	js, _ := json.Marshal(map[string]any{"stats": stats, "failures": fails})
	fmt.Println(string(js))
}

type (
	aliasInt8    = int8
	aliasString  = string
	aliasFloat64 = float64
	aliasBool    = bool
	aliasUint    = uint
)

// local defined types whose names equal the names of their kinds
func makeKindNamed() func(*rapid.T) string {
	type int8 aliasInt8
	type string aliasString
	type float64 aliasFloat64
	type bool aliasBool
	type uint aliasUint
	type holder struct {
		A int8
		B string
		C float64
		D bool
		E uint
		S []int8
		M map[string]bool
	}
	g1, g2, g3, g4, g5 := rapid.Make[int8](), rapid.Make[string](), rapid.Make[float64](), rapid.Make[bool](), rapid.Make[uint]()
	gh := rapid.Make[holder]()
	gs := rapid.Make[[]string]()
	return func(t *rapid.T) (res aliasString) {
		defer func() {
			if r := recover(); r != nil {
				if re, ok := r.(runtime.Error); ok {
					res = fmt.Sprintf("Make for a type named like its kind panics: %v", re)
					return
				}
				panic(r)
			}
		}()
		_ = any(g1.Draw(t, "a")).(int8)
		_ = any(g2.Draw(t, "b")).(string)
		_ = any(g3.Draw(t, "c")).(float64)
		_ = any(g4.Draw(t, "d")).(bool)
		_ = any(g5.Draw(t, "e")).(uint)
		_ = any(gh.Draw(t, "h")).(holder)
		_ = any(gs.Draw(t, "s")).([]string)
		return ""
	}
}

// two local types called T: both print as "main.T"
func makeSameNameA() func(*rapid.T) string {
	type T struct{ A int8 }
	g := rapid.Make[T]()
	return func(t *rapid.T) string {
		v := any(g.Draw(t, "a"))
		if _, ok := v.(T); !ok {
			return fmt.Sprintf("%T (not the requested type)", v)
		}
		return "main.T{A int8}"
	}
}

func makeSameNameB() func(*rapid.T) string {
	type T struct{ B string }
	g := rapid.Make[T]()
	return func(t *rapid.T) string {
		v := any(g.Draw(t, "b"))
		if _, ok := v.(T); !ok {
			return fmt.Sprintf("%T (not the requested type)", v)
		}
		return "main.T{B string}"
	}
}
