package main

// string-cases: StringOfN(Int32Range(lo,hi), minRunes, maxRunes, maxLen) on seeds and hostile buffers, compared with
// Model/Strings.v (rune-count and byte-length limits, rejection of values that are not code points)

import (
	"encoding/json"
	"flag"
	"fmt"
	"os"
	"strings"

	"pgregory.net/rapid"
)

func init() { register("string-cases", cmdStringCases) }

func cmdStringCases(args []string) {
	fs := flag.NewFlagSet("string-cases", flag.ExitOnError)
	n := fs.Int("n", 300, "cases")
	seed := fs.Uint64("seed", 1, "generator seed")
	out := fs.String("out", "", "output .v file")
	name := fs.String("name", "sc", "name prefix")
	_ = fs.Parse(args)
	r := &Rng{s: *seed*15485863 + 3}
	var b strings.Builder
	b.WriteString("From Coq Require Import List NArith ZArith.\nImport ListNotations.\n")
	b.WriteString("Require Import Rapid.Model.Base Rapid.Model.Corr Rapid.Model.Strings Rapid.Model.CorrStrings Rapid.Generated.GeomTable.\nLocal Open Scope Z_scope.\n")
	fmt.Fprintf(&b, "Definition %s : list str_case := [\n", *name)
	stats := map[string]int{}
	ranges := [][2]int32{{-3, 'z'}, {'a', 'c'}, {0x7E, 0x82}, {0x7FE, 0x802}, {0xD7FE, 0xE001}, {0xFFFE, 0x10001}, {0x10FFFE, 0x110002}, {0, 0x10FFFF}, {-5, -1}}
	for i := 0; i < *n; i++ {
		rg := ranges[r.intn(len(ranges))]
		minR, maxR := r.intn(4), -1
		if r.chance(70) {
			maxR = minR + r.intn(5)
		}
		maxLen := -1
		if r.chance(70) {
			base := minR
			if maxR >= 0 {
				base = maxR
			}
			maxLen = base + r.intn(8)
		}
		g := rapid.StringOfN(rapid.Int32Range(rg[0], rg[1]), minR, maxR, maxLen)
		K := rapid.VerifCoinThreshold(minR, maxR, -1)
		var got string
		prop := func(t *rapid.T) { got = g.Draw(t, "s") }
		var e rapid.VerifError
		src := ""
		if r.chance(50) {
			s := r.next()
			src = fmt.Sprintf("(OnSeed %d%%N)", s)
			e, _ = rapid.VerifRunSeed(nil, s, false, prop)
		} else {
			ws := GenWords(r, r.intn(40))
			src = "(OnBuf " + wordsCoq(ws) + "%N)"
			e, _ = rapid.VerifRunBuf(nil, ws, false, prop)
		}
		outc := "SOther"
		switch e.Kind {
		case "":
			var rs []string
			for _, c := range got {
				rs = append(rs, fmt.Sprintf("%d", c))
			}
			outc = "(SOk [" + strings.Join(rs, "; ") + "])"
			stats["ok"]++
			stats[fmt.Sprintf("runes_%d", len(rs))]++
		case "invalid":
			outc = "SInvalid"
			stats["invalid"]++
		default:
			stats["other:"+e.Kind]++
		}
		sep := ";"
		if i == *n-1 {
			sep = ""
		}
		fmt.Fprintf(&b, "  mkStr %d (%d) (%d) (%d) (%d) (%d) %d%%N %s %s%s\n", i, rg[0], rg[1], minR, maxR, maxLen, K, src, outc, sep)
		stats["cases"]++
	}
	b.WriteString("].\n")
	fmt.Fprintf(&b, "Definition %s_M := Eval vm_compute in str_mismatches geom_tab %s.\nPrint %s_M.\n", *name, *name, *name)
	if err := os.WriteFile(*out, []byte(b.String()), 0o644); err != nil {
		die("write: %v", err)
	}
	js, _ := json.Marshal(map[string]any{"cases": *n, "stats": stats})
	fmt.Println(string(js))
}
