package main

// C04 oracle on the implementation alone: run a seed with a recording stream, prune, replay the
// pruned words through a buffer stream; verdict and the draws of the property body must agree.

import (
	"encoding/json"
	"flag"
	"fmt"
	"os"
	"sort"
	"strings"

	"pgregory.net/rapid"
)

func init() { register("replay-oracle", cmdReplayOracle) }

// topDraws: draws made by the property body itself (not inside Custom bodies, not inside actions)
func topDraws(events []string) []string {
	var out []string
	depth, inAct := 0, 0
	for _, e := range events {
		switch {
		case e == "UCustomBegin":
			depth++
		case strings.HasPrefix(e, "(UCustomEnd"):
			depth--
		case strings.HasPrefix(e, "(UAct "):
			inAct++
		case strings.HasPrefix(e, "(UActEnd"):
			inAct--
		case depth == 0 && inAct == 0 && strings.HasPrefix(e, "(UDraw"):
			out = append(out, e)
		}
	}
	return out
}

// sideEffectsInAttempts: conservative "dirty" approximation - a non-fatal signal, a cleanup registration
// or a context creation anywhere inside a Custom body or an action
func sideEffectsInAttempts(events []string) bool {
	depth, inAct := 0, 0
	for _, e := range events {
		switch {
		case e == "UCustomBegin":
			depth++
		case strings.HasPrefix(e, "(UCustomEnd"):
			depth--
		case strings.HasPrefix(e, "(UAct "):
			inAct++
		case strings.HasPrefix(e, "(UActEnd"):
			inAct--
		case depth+inAct > 0 && (strings.HasPrefix(e, "(USignal KError") || strings.HasPrefix(e, "(UReg") || e == "UCtxNew"):
			return true
		}
	}
	return false
}

// safePrune: prune() asserts its own invariants; a panic there is a finding, not a reason to stop the oracle
func safePrune(rec rapid.VerifRecording) (out rapid.VerifRecording, panicked string) {
	defer func() {
		if r := recover(); r != nil {
			out, panicked = rec, fmt.Sprint(r)
		}
	}()
	return rapid.VerifPrune(rec), ""
}

type replayFailure struct {
	Index   int      `json:"index"`
	Program string   `json:"program"`
	Seed    uint64   `json:"seed"`
	What    string   `json:"what"`
	Orig    string   `json:"orig"`
	Replay  string   `json:"replay"`
	Pruned  []uint64 `json:"pruned"`
	GenSeed uint64   `json:"gen_seed"`
	Profile string   `json:"profile"`
}

func cmdReplayOracle(args []string) {
	fs := flag.NewFlagSet("replay-oracle", flag.ExitOnError)
	n := fs.Int("n", 200, "programs")
	k := fs.Int("k", 5, "seeds per program")
	seed := fs.Uint64("seed", 1, "generator seed")
	prof := fs.String("profile", "pure", "program profile")
	only := fs.Int("only", -1, "replay just this program index (verbose)")
	_ = fs.Parse(args)
	calibrate()
	pf := profileByName(*prof)
	stats := map[string]int{}
	var fails []replayFailure
	var samples []string
	for i := 0; i < *n; i++ {
		if *only >= 0 && i != *only {
			continue
		}
		r := &Rng{s: *seed*7000003 + uint64(i)}
		p := GenProgram(r, pf)
		for j := 0; j < *k; j++ {
			s := r.next()
			run := NewRun()
			e, rec := rapid.VerifRunSeed(nil, s, false, p.Prop(&run))
			stats["runs"]++
			if e.Kind == "invalid" {
				stats["skipped_invalid"]++
				continue
			}
			if sideEffectsInAttempts(run.Events) {
				stats["skipped_side_effects_in_attempts"]++
				continue
			}
			pruned, pp := safePrune(rec)
			if pp != "" {
				fails = append(fails, replayFailure{i, p.Root.coq(), s, "pruning a recording panics: " + pp, oresCoq(e), "", rec.Data, *seed, *prof})
				continue
			}
			if len(pruned.Data) < len(rec.Data) {
				stats["with_rejected_bits"]++
			}
			run2 := NewRun()
			e2, rec2 := rapid.VerifRunBuf(nil, pruned.Data, false, p.Prop(&run2))
			stats["compared"]++
			what := ""
			switch {
			case oresCoq(e) != oresCoq(e2):
				what = "verdict of the pruned replay differs"
			case strings.Join(topDraws(run.Events), ";") != strings.Join(topDraws(run2.Events), ";"):
				what = "draws of the pruned replay differ"
			case wordsCoq(rec2.Data) != wordsCoq(pruned.Data):
				what = "pruned replay does not consume exactly the pruned recording"
			}
			if *only >= 0 {
				fmt.Fprintf(os.Stderr, "seed %d\n orig   %s %v\n replay %s %v\n", s, oresCoq(e), run.Events, oresCoq(e2), run2.Events)
			}
			if what != "" {
				fails = append(fails, replayFailure{i, p.Root.coq(), s, what, oresCoq(e), oresCoq(e2), pruned.Data, *seed, *prof})
			}
			if len(samples) < 3 && len(pruned.Data) < len(rec.Data) {
				samples = append(samples, fmt.Sprintf("%s @ seed %d: %d words recorded, %d after prune, verdict %s", p.Root.coq(), s, len(rec.Data), len(pruned.Data), oresCoq(e)))
			}
		}
	}
	// generators outside the model (reflection-based Make, strings, regexps, floats, nested rejecting
	// collections): the same replay-after-prune statement on the implementation alone
	if *only < 0 || *only >= 1000000 {
		for xi, x := range extraGens() {
			for j := 0; j < *k**n/40+3; j++ {
				idx := 1000000 + xi*10000 + j
				if *only >= 0 && *only != idx {
					continue
				}
				s := (&Rng{s: *seed*7100003 + uint64(idx)}).next()
				var v1, v2 string
				e, rec := rapid.VerifRunSeed(nil, s, false, func(t *rapid.T) { v1 = x.draw(t) })
				stats["extra_runs"]++
				if e.Kind != "" {
					continue
				}
				pruned, pp := safePrune(rec)
				if pp != "" {
					fails = append(fails, replayFailure{idx, x.name, s, "pruning a recording panics: " + pp, oresCoq(e), "", rec.Data, *seed, *prof})
					continue
				}
				if len(pruned.Data) < len(rec.Data) {
					stats["extra_with_rejected_bits"]++
				}
				e2, rec2 := rapid.VerifRunBuf(nil, pruned.Data, false, func(t *rapid.T) { v2 = x.draw(t) })
				stats["compared"]++
				what := ""
				switch {
				case oresCoq(e) != oresCoq(e2):
					what = "verdict of the pruned replay differs"
				case v1 != v2:
					what = "draws of the pruned replay differ"
				case wordsCoq(rec2.Data) != wordsCoq(pruned.Data):
					what = "pruned replay does not consume exactly the pruned recording"
				}
				if what != "" {
					fails = append(fails, replayFailure{idx, x.name + ": " + v1 + " vs " + v2, s, what, oresCoq(e), oresCoq(e2), pruned.Data, *seed, *prof})
				}
			}
		}
	}
	out, _ := json.Marshal(map[string]any{"stats": stats, "failures": fails, "samples": samples})
	fmt.Println(string(out))
}

type extraGen struct {
	name string
	draw func(t *rapid.T) string
}

type xStruct struct {
	M map[uint8]int8
	B map[bool]string
	S []map[int8]bool
	P *uint16
}

func show(v any) string { return fmt.Sprintf("%#v", v) }

func extraGens() []extraGen {
	gm := rapid.Make[map[uint8]int8]()
	gb := rapid.Make[map[bool][]byte]()
	gs := rapid.Make[xStruct]()
	gstr := rapid.StringOfN(rapid.RuneFrom([]rune{'a', 'é', '世', '😀'}), 2, 5, 9)
	gre := rapid.StringMatching(`[a-c]{2,4}(x|yz)*\d?`)
	// regexps whose generated candidates can fail the final match, so that tries are rejected and retried
	greB := rapid.StringMatching(`a\b.`)
	greW := rapid.StringMatching(`[a-c ]{1,3}\b[a-c ]{1,2}`)
	greS := rapid.SliceOfBytesMatching(`[ab ]{1,3}\b[ab ]`)
	gf := rapid.Float64Range(-1e3, 1e300)
	gd := rapid.SliceOfNDistinct(rapid.SliceOfN(rapid.IntRange(0, 1), 0, 2), 2, 4, func(x []int) string { return fmt.Sprint(x) })
	gmm := rapid.MapOfN(rapid.StringN(0, 1, 1), rapid.Make[map[bool]bool](), 1, 3)
	gfilt := rapid.Make[map[int8]int8]().Filter(func(m map[int8]int8) bool { return len(m)%2 == 0 })
	return []extraGen{
		{"Make[map[uint8]int8]", func(t *rapid.T) string { return show(sortedMap(gm.Draw(t, "v"))) }},
		{"Make[map[bool][]byte]", func(t *rapid.T) string { return show(sortedMap(gb.Draw(t, "v"))) }},
		{"Make[struct of maps]", func(t *rapid.T) string {
			v := gs.Draw(t, "v")
			p := "nil"
			if v.P != nil {
				p = fmt.Sprint(*v.P)
			}
			ss := ""
			for _, m := range v.S {
				ss += show(sortedMap(m)) + ","
			}
			return show(sortedMap(v.M)) + show(sortedMap(v.B)) + ss + p
		}},
		{"StringOfN(multi-byte,2,5,9)", func(t *rapid.T) string { return show(gstr.Draw(t, "v")) }},
		{"StringMatching", func(t *rapid.T) string { return show(gre.Draw(t, "v")) }},
		{"StringMatching(a\\b.)", func(t *rapid.T) string { return show(greB.Draw(t, "v")) }},
		{"StringMatching(word boundary)", func(t *rapid.T) string { return show(greW.Draw(t, "v")) }},
		{"SliceOfBytesMatching(word boundary)", func(t *rapid.T) string { return show(greS.Draw(t, "v")) }},
		{"Float64Range", func(t *rapid.T) string { return fmt.Sprintf("%x", gf.Draw(t, "v")) }},
		{"SliceOfNDistinct(SliceOfN)", func(t *rapid.T) string { return show(gd.Draw(t, "v")) }},
		{"MapOfN(StringN, Make[map])", func(t *rapid.T) string {
			m := gmm.Draw(t, "v")
			out := ""
			for _, k := range sortedKeys(m) {
				out += k + "=" + show(sortedMap(m[k])) + ";"
			}
			return out
		}},
		{"Make[map].Filter", func(t *rapid.T) string { return show(sortedMap(gfilt.Draw(t, "v"))) }},
	}
}

// sortedMap renders a map with sorted keys (map iteration order is random)
func sortedMap[K comparable, V any](m map[K]V) string {
	type kv struct{ k, v string }
	var l []kv
	for k, v := range m {
		l = append(l, kv{fmt.Sprintf("%#v", k), fmt.Sprintf("%#v", v)})
	}
	sort.Slice(l, func(i, j int) bool { return l[i].k < l[j].k })
	out := "{"
	for _, e := range l {
		out += e.k + ":" + e.v + ","
	}
	return out + "}"
}

func sortedKeys[V any](m map[string]V) []string {
	var ks []string
	for k := range m {
		ks = append(ks, k)
	}
	sort.Strings(ks)
	return ks
}
