package main

// C04 oracle on the implementation alone: run a seed with a recording stream, prune, replay the
// pruned words through a buffer stream; verdict and the draws of the property body must agree.

import (
	"encoding/json"
	"flag"
	"fmt"
	"os"
	"strings"

	"pgregory.net/rapid"
)

func init() { register("replay-oracle", cmdReplayOracle) }

// topDraws: draws made by the property body itself (not inside Custom bodies, not inside actions)
func topDraws(events []string) []string {
	var out []string
	depth, inAct := 0, 0
	for _, e := range events {
		switch {
		case e == "UCustomBegin":
			depth++
		case strings.HasPrefix(e, "(UCustomEnd"):
			depth--
		case strings.HasPrefix(e, "(UAct "):
			inAct++
		case strings.HasPrefix(e, "(UActEnd"):
			inAct--
		case depth == 0 && inAct == 0 && strings.HasPrefix(e, "(UDraw"):
			out = append(out, e)
		}
	}
	return out
}

// sideEffectsInAttempts: conservative "dirty" approximation - a non-fatal signal, a cleanup registration
// or a context creation anywhere inside a Custom body or an action
func sideEffectsInAttempts(events []string) bool {
	depth, inAct := 0, 0
	for _, e := range events {
		switch {
		case e == "UCustomBegin":
			depth++
		case strings.HasPrefix(e, "(UCustomEnd"):
			depth--
		case strings.HasPrefix(e, "(UAct "):
			inAct++
		case strings.HasPrefix(e, "(UActEnd"):
			inAct--
		case depth+inAct > 0 && (strings.HasPrefix(e, "(USignal KError") || strings.HasPrefix(e, "(UReg") || e == "UCtxNew"):
			return true
		}
	}
	return false
}

type replayFailure struct {
	Index   int      `json:"index"`
	Program string   `json:"program"`
	Seed    uint64   `json:"seed"`
	What    string   `json:"what"`
	Orig    string   `json:"orig"`
	Replay  string   `json:"replay"`
	Pruned  []uint64 `json:"pruned"`
	GenSeed uint64   `json:"gen_seed"`
	Profile string   `json:"profile"`
}

func cmdReplayOracle(args []string) {
	fs := flag.NewFlagSet("replay-oracle", flag.ExitOnError)
	n := fs.Int("n", 200, "programs")
	k := fs.Int("k", 5, "seeds per program")
	seed := fs.Uint64("seed", 1, "generator seed")
	prof := fs.String("profile", "pure", "program profile")
	only := fs.Int("only", -1, "replay just this program index (verbose)")
	_ = fs.Parse(args)
	calibrate()
	pf := profileByName(*prof)
	stats := map[string]int{}
	var fails []replayFailure
	var samples []string
	for i := 0; i < *n; i++ {
		if *only >= 0 && i != *only {
			continue
		}
		r := &Rng{s: *seed*7000003 + uint64(i)}
		p := GenProgram(r, pf)
		for j := 0; j < *k; j++ {
			s := r.next()
			run := NewRun()
			e, rec := rapid.VerifRunSeed(nil, s, false, p.Prop(&run))
			stats["runs"]++
			if e.Kind == "invalid" {
				stats["skipped_invalid"]++
				continue
			}
			if sideEffectsInAttempts(run.Events) {
				stats["skipped_side_effects_in_attempts"]++
				continue
			}
			pruned := rapid.VerifPrune(rec)
			if len(pruned.Data) < len(rec.Data) {
				stats["with_rejected_bits"]++
			}
			run2 := NewRun()
			e2, rec2 := rapid.VerifRunBuf(nil, pruned.Data, false, p.Prop(&run2))
			stats["compared"]++
			what := ""
			switch {
			case oresCoq(e) != oresCoq(e2):
				what = "verdict of the pruned replay differs"
			case strings.Join(topDraws(run.Events), ";") != strings.Join(topDraws(run2.Events), ";"):
				what = "draws of the pruned replay differ"
			case wordsCoq(rec2.Data) != wordsCoq(pruned.Data):
				what = "pruned replay does not consume exactly the pruned recording"
			}
			if *only >= 0 {
				fmt.Fprintf(os.Stderr, "seed %d\n orig   %s %v\n replay %s %v\n", s, oresCoq(e), run.Events, oresCoq(e2), run2.Events)
			}
			if what != "" {
				fails = append(fails, replayFailure{i, p.Root.coq(), s, what, oresCoq(e), oresCoq(e2), pruned.Data, *seed, *prof})
			}
			if len(samples) < 3 && len(pruned.Data) < len(rec.Data) {
				samples = append(samples, fmt.Sprintf("%s @ seed %d: %d words recorded, %d after prune, verdict %s", p.Root.coq(), s, len(rec.Data), len(pruned.Data), oresCoq(e)))
			}
		}
	}
	out, _ := json.Marshal(map[string]any{"stats": stats, "failures": fails, "samples": samples})
	fmt.Println(string(out))
}
