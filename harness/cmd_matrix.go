package main

// C02: the complete failure-kind x callback-context x position matrix through rapid.Check.

import (
	"encoding/json"
	"flag"
	"fmt"

	"pgregory.net/rapid"
)

func init() { register("c02-matrix", cmdC02Matrix) }

type variantSpec struct{ kind, variant string }

var failVariants = []variantSpec{
	{"error", "errorf"}, {"error", "error"}, {"error", "fail"},
	{"error", "error-noargs"}, {"error", "errorf-empty"}, {"error", "fail-then-errorf-empty"},
	{"fatal", "fatalf"}, {"fatal", "fatal"}, {"fatal", "failnow"},
	{"panic", "panicstr"}, {"panic", "panicerr"}, {"panic", "nilderef"},
}

// the failing statement, followed by `next`
func failStmt(v variantSpec, id int, next *Stmt) *Stmt {
	return &Stmt{Op: "fail", Kind: v.kind, Variant: v.variant, Id: id, Msg: 7, Next: next}
}

var contexts = []string{"body", "body-then-skip", "action", "action-then-skip", "invariant", "custom", "custom-then-skip",
	"custom-in-slice", "cleanup", "cleanup-in-custom", "cleanup-in-action", "nested-custom", "filtered-custom", "cleanup-then-skip-body",
	"body-before-skipping-cleanup", "cleanup-before-skipping-cleanup"}

// position: how the failing case is reached.  trig = the triggering condition on a drawn value
func wrapPosition(pos string, body *Stmt) *Stmt {
	d := &Gen{Op: "uint", Kind: "Uint64", Variant: "range", UMin: 0, UMax: 9}
	switch pos {
	case "first":
		return body
	case "later": // fails when the drawn digit is 7: the failing case comes after several passing ones
		return &Stmt{Op: "draw", Raw: true, G: d, Next: &Stmt{Op: "if", C: &Cond{Op: "eq", A: cvar(0), B: cconst(zv(7))}, A: body, B: retUnit()}}
	default: // after skipped cases: digit < 7 skips, 7 fails, > 7 passes
		return &Stmt{Op: "draw", Raw: true, G: d, Next: &Stmt{Op: "if", C: &Cond{Op: "lt", A: cvar(0), B: cconst(zv(7))},
			A: &Stmt{Op: "skip", Variant: "skip", Msg: 1},
			B: &Stmt{Op: "if", C: &Cond{Op: "eq", A: cvar(0), B: cconst(zv(7))}, A: body, B: retUnit()}}}
	}
}

func buildContext(ctx string, v variantSpec) *Stmt {
	skip := &Stmt{Op: "skip", Variant: "skip", Msg: 3}
	leaf := &Gen{Op: "uint", Kind: "Uint64", Variant: "range", UMin: 0, UMax: 3}
	customOf := func(body *Stmt) *Gen { return &Gen{Op: "custom", Body: body} }
	drawThen := func(g *Gen, next *Stmt) *Stmt { return &Stmt{Op: "draw", G: g, Next: next} }
	retv := &Stmt{Op: "ret", E: cconst(zv(1))}
	switch ctx {
	case "body":
		return failStmt(v, 1, retUnit())
	case "body-then-skip":
		return failStmt(v, 1, skip)
	case "action", "action-then-skip":
		after := &Stmt{Op: "ret", E: &VExp{Op: "add", A: cvar(0), B: cconst(zv(1))}}
		if ctx == "action-then-skip" {
			after = skip
		}
		act := drawThen(leaf, failStmt(v, 1, after))
		return &Stmt{Op: "repeat", Id: 2, E: cconst(zv(0)), Acts: []*Stmt{act}, Next: retUnit()}
	case "invariant":
		chk := &Stmt{Op: "if", C: &Cond{Op: "lt", A: cconst(zv(1)), B: cvar(0)}, A: failStmt(v, 1, retUnit()), B: retUnit()}
		act := drawThen(leaf, &Stmt{Op: "ret", E: &VExp{Op: "add", A: cvar(0), B: cconst(zv(1))}})
		return &Stmt{Op: "repeat", Id: 2, E: cconst(zv(0)), A: chk, Acts: []*Stmt{act}, Next: retUnit()}
	case "custom":
		return drawThen(customOf(drawThen(leaf, failStmt(v, 1, retv))), retUnit())
	case "custom-then-skip":
		return drawThen(customOf(drawThen(leaf, failStmt(v, 1, skip))), retUnit())
	case "custom-in-slice":
		return drawThen(&Gen{Op: "slice", MinLen: 1, MaxLen: 3, Subs: []*Gen{customOf(drawThen(leaf, failStmt(v, 1, retv)))}}, retUnit())
	case "cleanup":
		return &Stmt{Op: "cleanup", Id: 3, A: failStmt(v, 1, retUnit()), Next: drawThen(leaf, retUnit())}
	case "cleanup-then-skip-body":
		return &Stmt{Op: "cleanup", Id: 3, A: failStmt(v, 1, retUnit()), Next: drawThen(leaf, skip)}
	case "body-before-skipping-cleanup": // a cleanup function that calls Skip runs after the body has failed
		return &Stmt{Op: "cleanup", Id: 3, A: skip, Next: drawThen(leaf, failStmt(v, 1, retUnit()))}
	case "cleanup-before-skipping-cleanup": // the failing cleanup runs first (registered last), then one that calls Skip
		return &Stmt{Op: "cleanup", Id: 3, A: skip, Next: &Stmt{Op: "cleanup", Id: 4, A: failStmt(v, 1, retUnit()), Next: drawThen(leaf, retUnit())}}
	case "cleanup-in-custom":
		return drawThen(customOf(&Stmt{Op: "cleanup", Id: 3, A: failStmt(v, 1, retUnit()), Next: drawThen(leaf, retv)}), retUnit())
	case "cleanup-in-action":
		act := &Stmt{Op: "cleanup", Id: 3, A: failStmt(v, 1, retUnit()), Next: drawThen(leaf, &Stmt{Op: "ret", E: &VExp{Op: "add", A: cvar(0), B: cconst(zv(1))}})}
		return &Stmt{Op: "repeat", Id: 2, E: cconst(zv(0)), Acts: []*Stmt{act}, Next: retUnit()}
	case "nested-custom":
		inner := customOf(drawThen(leaf, failStmt(v, 1, retv)))
		return drawThen(customOf(drawThen(inner, &Stmt{Op: "ret", E: cvar(0)})), retUnit())
	case "filtered-custom": // the value generated after the failure is rejected by a filter afterwards
		return drawThen(&Gen{Op: "filter", Pr: &Pr1{Op: "ltc", K: 0}, Subs: []*Gen{customOf(drawThen(leaf, failStmt(v, 1, retv)))}}, retUnit())
	}
	panic("context " + ctx)
}

func cmdC02Matrix(args []string) {
	fs := flag.NewFlagSet("c02-matrix", flag.ExitOnError)
	seed := fs.Uint64("seed", 1, "base seed")
	only := fs.String("only", "", "kind/variant/context/position")
	_ = fs.Parse(args)
	calibrate()
	stats := map[string]int{}
	var fails []map[string]any
	var samples []string
	idx := 0
	for _, v := range failVariants {
		for _, ctx := range contexts {
			for _, pos := range []string{"first", "later", "after-skips"} {
				idx++
				key := fmt.Sprintf("%s/%s/%s", v.variant, ctx, pos)
				if *only != "" && *only != key {
					continue
				}
				p := NewProgram(wrapPosition(pos, buildContext(ctx, v)))
				signalled := false
				var o checkObs
				// several base seeds: the failing case must be reached in at least one run
				for k := uint64(0); k < 4 && !signalled; k++ {
					o = RunCheck(p, "T", 60, (*seed+k)*7919+uint64(idx), 0)
					for _, r := range o.Runs {
						if hasSignal(r) {
							signalled = true
						}
					}
				}
				stats["cells"]++
				if !signalled {
					stats["cells_never_signalled"]++
					continue
				}
				stats["cells_signalled"]++
				stats["verdict_"+o.Verdict]++
				if len(samples) < 3 {
					samples = append(samples, key+": "+p.Root.coq()+" -> "+o.Verdict)
				}
				if !o.Failed || !(o.Verdict == "failed" || o.Verdict == "panic") {
					fails = append(fails, map[string]any{"property": "C02", "what": "a failure signal was lost: " + v.kind + " in " + ctx,
						"cell": key, "program": p.Root.coq(), "verdict": o.Verdict, "index": key})
				}
				if o.Escaped != "" {
					fails = append(fails, map[string]any{"property": "C02", "what": "a panic escaped Check", "cell": key, "program": p.Root.coq(), "detail": o.Escaped, "index": key})
				}
			}
		}
	}
	// cells outside the program language: the *T of a Custom generator function used after the function returned
	// (a fixture value that kept its *T): a non-fatal failure signalled on it still falsifies the test case
	for vi, how := range []string{"errorf", "error", "fail"} {
		key := how + "/custom-T-used-after-return/first"
		if *only != "" && *only != key {
			continue
		}
		var inner *rapid.T
		g := rapid.Custom(func(t *rapid.T) int {
			inner = t
			return rapid.IntRange(0, 9).Draw(t, "v")
		})
		prop := func(t *rapid.T) {
			_ = g.Draw(t, "g")
			switch how {
			case "errorf":
				inner.Errorf("late %d", 7)
			case "error":
				inner.Error("late")
			default:
				inner.Fail()
			}
		}
		old := setFlags(20, (*seed+uint64(vi))|1, 0, true)
		tb := &recTB{name: "T"}
		esc := runTB(func() { rapid.Check(tb, prop) })
		rapid.VerifSetFlags(old)
		verdict, _, _, _, _ := classifyTB(tb)
		stats["cells"]++
		stats["cells_signalled"]++
		stats["verdict_"+verdict]++
		if esc != nil || !tb.failed || !(verdict == "failed" || verdict == "panic") {
			fails = append(fails, map[string]any{"property": "C02", "what": "a failure signal was lost: error in custom-T-used-after-return",
				"cell": key, "program": "Custom fn keeps its *T; the property calls " + how + " on it after the draw", "verdict": verdict, "index": key})
		}
	}
	// a fatal failure in a Custom generator function whose own deferred function then skips (the skip replaces the
	// fatal failure's panic; the failure flag on the enclosing T's is what keeps the falsification)
	for vi, how := range []string{"fatalf", "fatal", "failnow"} {
		key := how + "/custom-fatal-then-deferred-skip/first"
		if *only != "" && *only != key {
			continue
		}
		g := rapid.Custom(func(t *rapid.T) int {
			v := rapid.IntRange(0, 9).Draw(t, "v")
			defer func() { t.Skip("deferred skip") }()
			switch how {
			case "fatalf":
				t.Fatalf("fatal %d", 7)
			case "fatal":
				t.Fatal("fatal")
			default:
				t.FailNow()
			}
			return v
		})
		nested := rapid.Custom(func(t *rapid.T) int { return g.Draw(t, "inner") })
		prop := func(t *rapid.T) { _ = nested.Draw(t, "g") }
		old := setFlags(20, (*seed+uint64(vi))|1, 0, true)
		tb := &recTB{name: "T"}
		esc := runTB(func() { rapid.Check(tb, prop) })
		rapid.VerifSetFlags(old)
		verdict, _, _, _, _ := classifyTB(tb)
		stats["cells"]++
		stats["cells_signalled"]++
		stats["verdict_"+verdict]++
		if esc != nil || !tb.failed || !(verdict == "failed" || verdict == "panic") {
			fails = append(fails, map[string]any{"property": "C02", "what": "a failure signal was lost: fatal in custom-fatal-then-deferred-skip",
				"cell": key, "program": "nested Custom fn: " + how + ", then its deferred function calls Skip", "verdict": verdict, "index": key})
		}
	}
	js, _ := json.Marshal(map[string]any{"stats": stats, "failures": fails, "samples": samples})
	fmt.Println(string(js))
}
