// Code generated for the verification harness; DO NOT EDIT.
package main

// Each failure node and each Repeat node of a harness program runs through its own trampoline, so that
// the Go traceback of a failure identifies the static program node that raised it.

//go:noinline
func tramp0(f func()) { f() }

//go:noinline
func tramp1(f func()) { f() }

//go:noinline
func tramp2(f func()) { f() }

//go:noinline
func tramp3(f func()) { f() }

//go:noinline
func tramp4(f func()) { f() }

//go:noinline
func tramp5(f func()) { f() }

//go:noinline
func tramp6(f func()) { f() }

//go:noinline
func tramp7(f func()) { f() }

//go:noinline
func tramp8(f func()) { f() }

//go:noinline
func tramp9(f func()) { f() }

//go:noinline
func tramp10(f func()) { f() }

//go:noinline
func tramp11(f func()) { f() }

//go:noinline
func tramp12(f func()) { f() }

//go:noinline
func tramp13(f func()) { f() }

//go:noinline
func tramp14(f func()) { f() }

//go:noinline
func tramp15(f func()) { f() }

//go:noinline
func tramp16(f func()) { f() }

//go:noinline
func tramp17(f func()) { f() }

//go:noinline
func tramp18(f func()) { f() }

//go:noinline
func tramp19(f func()) { f() }

//go:noinline
func tramp20(f func()) { f() }

//go:noinline
func tramp21(f func()) { f() }

//go:noinline
func tramp22(f func()) { f() }

//go:noinline
func tramp23(f func()) { f() }

//go:noinline
func tramp24(f func()) { f() }

//go:noinline
func tramp25(f func()) { f() }

//go:noinline
func tramp26(f func()) { f() }

//go:noinline
func tramp27(f func()) { f() }

//go:noinline
func tramp28(f func()) { f() }

//go:noinline
func tramp29(f func()) { f() }

//go:noinline
func tramp30(f func()) { f() }

//go:noinline
func tramp31(f func()) { f() }

//go:noinline
func tramp32(f func()) { f() }

//go:noinline
func tramp33(f func()) { f() }

//go:noinline
func tramp34(f func()) { f() }

//go:noinline
func tramp35(f func()) { f() }

//go:noinline
func tramp36(f func()) { f() }

//go:noinline
func tramp37(f func()) { f() }

//go:noinline
func tramp38(f func()) { f() }

//go:noinline
func tramp39(f func()) { f() }

//go:noinline
func tramp40(f func()) { f() }

//go:noinline
func tramp41(f func()) { f() }

//go:noinline
func tramp42(f func()) { f() }

//go:noinline
func tramp43(f func()) { f() }

//go:noinline
func tramp44(f func()) { f() }

//go:noinline
func tramp45(f func()) { f() }

//go:noinline
func tramp46(f func()) { f() }

//go:noinline
func tramp47(f func()) { f() }

//go:noinline
func tramp48(f func()) { f() }

//go:noinline
func tramp49(f func()) { f() }

//go:noinline
func tramp50(f func()) { f() }

//go:noinline
func tramp51(f func()) { f() }

//go:noinline
func tramp52(f func()) { f() }

//go:noinline
func tramp53(f func()) { f() }

//go:noinline
func tramp54(f func()) { f() }

//go:noinline
func tramp55(f func()) { f() }

//go:noinline
func tramp56(f func()) { f() }

//go:noinline
func tramp57(f func()) { f() }

//go:noinline
func tramp58(f func()) { f() }

//go:noinline
func tramp59(f func()) { f() }

//go:noinline
func tramp60(f func()) { f() }

//go:noinline
func tramp61(f func()) { f() }

//go:noinline
func tramp62(f func()) { f() }

//go:noinline
func tramp63(f func()) { f() }

//go:noinline
func tramp64(f func()) { f() }

//go:noinline
func tramp65(f func()) { f() }

//go:noinline
func tramp66(f func()) { f() }

//go:noinline
func tramp67(f func()) { f() }

//go:noinline
func tramp68(f func()) { f() }

//go:noinline
func tramp69(f func()) { f() }

//go:noinline
func tramp70(f func()) { f() }

//go:noinline
func tramp71(f func()) { f() }

//go:noinline
func tramp72(f func()) { f() }

//go:noinline
func tramp73(f func()) { f() }

//go:noinline
func tramp74(f func()) { f() }

//go:noinline
func tramp75(f func()) { f() }

//go:noinline
func tramp76(f func()) { f() }

//go:noinline
func tramp77(f func()) { f() }

//go:noinline
func tramp78(f func()) { f() }

//go:noinline
func tramp79(f func()) { f() }

//go:noinline
func tramp80(f func()) { f() }

//go:noinline
func tramp81(f func()) { f() }

//go:noinline
func tramp82(f func()) { f() }

//go:noinline
func tramp83(f func()) { f() }

//go:noinline
func tramp84(f func()) { f() }

//go:noinline
func tramp85(f func()) { f() }

//go:noinline
func tramp86(f func()) { f() }

//go:noinline
func tramp87(f func()) { f() }

//go:noinline
func tramp88(f func()) { f() }

//go:noinline
func tramp89(f func()) { f() }

//go:noinline
func tramp90(f func()) { f() }

//go:noinline
func tramp91(f func()) { f() }

//go:noinline
func tramp92(f func()) { f() }

//go:noinline
func tramp93(f func()) { f() }

//go:noinline
func tramp94(f func()) { f() }

//go:noinline
func tramp95(f func()) { f() }

var tramps = [...]func(func()){tramp0, tramp1, tramp2, tramp3, tramp4, tramp5, tramp6, tramp7, tramp8, tramp9, tramp10, tramp11, tramp12, tramp13, tramp14, tramp15, tramp16, tramp17, tramp18, tramp19, tramp20, tramp21, tramp22, tramp23, tramp24, tramp25, tramp26, tramp27, tramp28, tramp29, tramp30, tramp31, tramp32, tramp33, tramp34, tramp35, tramp36, tramp37, tramp38, tramp39, tramp40, tramp41, tramp42, tramp43, tramp44, tramp45, tramp46, tramp47, tramp48, tramp49, tramp50, tramp51, tramp52, tramp53, tramp54, tramp55, tramp56, tramp57, tramp58, tramp59, tramp60, tramp61, tramp62, tramp63, tramp64, tramp65, tramp66, tramp67, tramp68, tramp69, tramp70, tramp71, tramp72, tramp73, tramp74, tramp75, tramp76, tramp77, tramp78, tramp79, tramp80, tramp81, tramp82, tramp83, tramp84, tramp85, tramp86, tramp87, tramp88, tramp89, tramp90, tramp91, tramp92, tramp93, tramp94, tramp95}
