package main

// First-order program syntax shared with the Coq model (coq/Model/Pexp.v): the same term is
// interpreted here against the real rapid and compiled to a `prog` there.

import (
	"fmt"
	"math/big"
	"sort"
	"strings"
)

// ---- values ----
// nil = VU, *big.Int = VZ, bool = VB, []Val = VL, Ptr = VP, MapV = VM
type Val = any
type Ptr struct {
	Nil bool
	V   Val
}
type KV struct{ K, V Val }
type MapV []KV // sorted by key

func zv(i int64) Val  { return big.NewInt(i) }
func uv(u uint64) Val { return new(big.Int).SetUint64(u) }
func valZ(v Val) *big.Int {
	switch x := v.(type) {
	case *big.Int:
		return x
	case bool:
		if x {
			return big.NewInt(1)
		}
	case []Val:
		return big.NewInt(int64(len(x)))
	case MapV:
		return big.NewInt(int64(len(x)))
	}
	return big.NewInt(0)
}
func valLen(v Val) *big.Int {
	switch x := v.(type) {
	case []Val:
		return big.NewInt(int64(len(x)))
	case MapV:
		return big.NewInt(int64(len(x)))
	case Ptr:
		if !x.Nil {
			return big.NewInt(1)
		}
	}
	return big.NewInt(0)
}
func floorMod(a *big.Int, k int64) *big.Int {
	// Coq's Z.modulo: result has the sign of the divisor; x mod 0 = x (8.16)
	if k == 0 {
		return new(big.Int).Set(a)
	}
	m := new(big.Int).Mod(a, big.NewInt(k)) // Euclidean: 0 <= m < |k|
	if k < 0 && m.Sign() != 0 {
		m.Add(m, big.NewInt(k))
	}
	return m
}

// canonical string of a value: used as comparable key and for equality
func canon(v Val) string {
	switch x := v.(type) {
	case nil:
		return "u"
	case *big.Int:
		return "z" + x.String()
	case bool:
		if x {
			return "bT"
		}
		return "bF"
	case []Val:
		ss := make([]string, len(x))
		for i, e := range x {
			ss[i] = canon(e)
		}
		return "[" + strings.Join(ss, ",") + "]"
	case Ptr:
		if x.Nil {
			return "pN"
		}
		return "p(" + canon(x.V) + ")"
	case MapV:
		ss := make([]string, len(x))
		for i, e := range x {
			ss[i] = canon(e.K) + ":" + canon(e.V)
		}
		return "{" + strings.Join(ss, ",") + "}"
	}
	panic(fmt.Sprintf("canon: %T", v))
}

func coqZ(z *big.Int) string { return "(" + z.String() + ")%Z" }
func coqVal(v Val) string {
	switch x := v.(type) {
	case nil:
		return "VU"
	case *big.Int:
		return "(VZ " + coqZ(x) + ")"
	case bool:
		if x {
			return "(VB true)"
		}
		return "(VB false)"
	case []Val:
		ss := make([]string, len(x))
		for i, e := range x {
			ss[i] = coqVal(e)
		}
		return "(VL [" + strings.Join(ss, "; ") + "])"
	case Ptr:
		if x.Nil {
			return "(VP None)"
		}
		return "(VP (Some " + coqVal(x.V) + "))"
	case MapV:
		ss := make([]string, len(x))
		for i, e := range x {
			ss[i] = "(" + coqVal(e.K) + ", " + coqVal(e.V) + ")"
		}
		return "(VM [" + strings.Join(ss, "; ") + "])"
	}
	panic(fmt.Sprintf("coqVal: %T", v))
}
func keyZ(v Val) *big.Int {
	switch x := v.(type) {
	case *big.Int:
		return x
	case bool:
		if x {
			return big.NewInt(1)
		}
	}
	return big.NewInt(0)
}
func sortMap(m MapV) MapV {
	sort.SliceStable(m, func(i, j int) bool { return keyZ(m[i].K).Cmp(keyZ(m[j].K)) < 0 })
	return m
}

// ---- expressions ----
type VExp struct {
	Op   string // var const add modc len
	I    int
	V    Val
	A, B *VExp
	K    int64
}

func (e *VExp) coq() string {
	switch e.Op {
	case "var":
		return fmt.Sprintf("(EVar %d)", e.I)
	case "const":
		return "(EConst " + coqVal(e.V) + ")"
	case "add":
		return "(EAdd " + e.A.coq() + " " + e.B.coq() + ")"
	case "modc":
		return fmt.Sprintf("(EModC %s (%d)%%Z)", e.A.coq(), e.K)
	case "len":
		return "(ELen " + e.A.coq() + ")"
	}
	panic("vexp " + e.Op)
}
func (e *VExp) eval(env []Val) Val {
	switch e.Op {
	case "var":
		if e.I < len(env) {
			return env[e.I]
		}
		return nil
	case "const":
		return e.V
	case "add":
		return new(big.Int).Add(valZ(e.A.eval(env)), valZ(e.B.eval(env)))
	case "modc":
		return floorMod(valZ(e.A.eval(env)), e.K)
	case "len":
		return valLen(e.A.eval(env))
	}
	panic("vexp " + e.Op)
}

type Cond struct {
	Op   string // true lt eq not and istrue
	A, B *VExp
	C, D *Cond
}

func (c *Cond) coq() string {
	switch c.Op {
	case "true":
		return "CTrue"
	case "lt":
		return "(CLt " + c.A.coq() + " " + c.B.coq() + ")"
	case "eq":
		return "(CEq " + c.A.coq() + " " + c.B.coq() + ")"
	case "not":
		return "(CNot " + c.C.coq() + ")"
	case "and":
		return "(CAnd " + c.C.coq() + " " + c.D.coq() + ")"
	case "istrue":
		return "(CIsTrue " + c.A.coq() + ")"
	}
	panic("cond " + c.Op)
}
func (c *Cond) eval(env []Val) bool {
	switch c.Op {
	case "true":
		return true
	case "lt":
		return valZ(c.A.eval(env)).Cmp(valZ(c.B.eval(env))) < 0
	case "eq":
		return canon(c.A.eval(env)) == canon(c.B.eval(env))
	case "not":
		return !c.C.eval(env)
	case "and":
		return c.C.eval(env) && c.D.eval(env)
	case "istrue":
		b, ok := c.A.eval(env).(bool)
		return ok && b
	}
	panic("cond " + c.Op)
}

type Fn1 struct {
	Op string // id modc addc len
	K  int64
}

func (f *Fn1) coq() string {
	switch f.Op {
	case "id":
		return "FId"
	case "modc":
		return fmt.Sprintf("(FModC (%d)%%Z)", f.K)
	case "addc":
		return fmt.Sprintf("(FAddC (%d)%%Z)", f.K)
	case "len":
		return "FLen"
	}
	panic("fn1 " + f.Op)
}
func (f *Fn1) eval(v Val) Val {
	switch f.Op {
	case "id":
		return v
	case "modc":
		return floorMod(valZ(v), f.K)
	case "addc":
		return new(big.Int).Add(valZ(v), big.NewInt(f.K))
	case "len":
		return valLen(v)
	}
	panic("fn1 " + f.Op)
}

type Pr1 struct {
	Op   string // true modeq ltc not lenlt
	K, R int64
	P    *Pr1
}

func (p *Pr1) coq() string {
	switch p.Op {
	case "true":
		return "PrTrue"
	case "modeq":
		return fmt.Sprintf("(PrModEq (%d)%%Z (%d)%%Z)", p.K, p.R)
	case "ltc":
		return fmt.Sprintf("(PrLtC (%d)%%Z)", p.K)
	case "not":
		return "(PrNot " + p.P.coq() + ")"
	case "lenlt":
		return fmt.Sprintf("(PrLenLt (%d)%%Z)", p.K)
	}
	panic("pr1 " + p.Op)
}
func (p *Pr1) eval(v Val) bool {
	switch p.Op {
	case "true":
		return true
	case "modeq":
		return floorMod(valZ(v), p.K).Cmp(big.NewInt(p.R)) == 0
	case "ltc":
		return valZ(v).Cmp(big.NewInt(p.K)) < 0
	case "not":
		return !p.P.eval(v)
	case "lenlt":
		return valLen(v).Cmp(big.NewInt(p.K)) < 0
	}
	panic("pr1 " + p.Op)
}

// ---- generator descriptions ----
type Gen struct {
	Op             string // bool uint int sampled oneof ptr slice sliced map mapv perm filter mapfn custom deferred
	Kind           string // Go constructor family for uint/int: "Uint64", "Int8", ... ; Variant: range/min/max/full
	Variant        string
	UMin, UMax     uint64
	IMin, IMax     int64
	N              int
	MinLen, MaxLen int
	AllowNil       bool
	Fn             *Fn1
	Pr             *Pr1
	Subs           []*Gen
	Body           *Stmt
	K              uint64 // coin threshold of the repeat, filled in from the real newRepeat
}

func (g *Gen) coq() string {
	switch g.Op {
	case "bool":
		return "DBool"
	case "uint":
		return fmt.Sprintf("(DUint %d %d)", g.UMin, g.UMax)
	case "int":
		return fmt.Sprintf("(DInt (%d)%%Z (%d)%%Z)", g.IMin, g.IMax)
	case "sampled":
		return fmt.Sprintf("(DSampled %d)", g.N)
	case "oneof":
		ss := make([]string, len(g.Subs))
		for i, s := range g.Subs {
			ss[i] = s.coq()
		}
		return "(DOneOf [" + strings.Join(ss, "; ") + "])"
	case "ptr":
		return fmt.Sprintf("(DPtr %v %s)", g.AllowNil, g.Subs[0].coq())
	case "slice":
		return fmt.Sprintf("(DSlice (%d)%%Z (%d)%%Z %d %s)", g.MinLen, g.MaxLen, g.K, g.Subs[0].coq())
	case "sliced":
		return fmt.Sprintf("(DSliceD (%d)%%Z (%d)%%Z %d %s %s)", g.MinLen, g.MaxLen, g.K, g.Fn.coq(), g.Subs[0].coq())
	case "map":
		return fmt.Sprintf("(DMap (%d)%%Z (%d)%%Z %d %s %s)", g.MinLen, g.MaxLen, g.K, g.Subs[0].coq(), g.Subs[1].coq())
	case "mapv":
		return fmt.Sprintf("(DMapV (%d)%%Z (%d)%%Z %d %s %s)", g.MinLen, g.MaxLen, g.K, g.Fn.coq(), g.Subs[0].coq())
	case "perm":
		return fmt.Sprintf("(DPerm %d)", g.N)
	case "filter":
		return "(DFilter " + g.Subs[0].coq() + " " + g.Pr.coq() + ")"
	case "mapfn":
		return "(DMapFn " + g.Subs[0].coq() + " " + g.Fn.coq() + ")"
	case "custom":
		return "(DCustom " + g.Body.coq() + ")"
	case "deferred":
		return "(DDeferred " + g.Subs[0].coq() + ")"
	}
	panic("gen " + g.Op)
}

// ---- statements ----
type Stmt struct {
	Op      string // ret draw if fail failv skip cleanup context failed log repeat
	E       *VExp
	D       *VExp // failv: recursion depth expression (E is the message expression)
	Raw     bool
	G       *Gen
	C       *Cond
	A, B    *Stmt  // if branches / cleanup fn (A) / repeat check (A)
	Kind    string // error fatal panic
	Variant string // errorf error fail | fatalf fatal failnow | panicstr panicerr nilderef | skipf skip skipnow
	Id      int
	Msg     uint64
	Acts    []*Stmt
	K       uint64 // repeat coin threshold
	Next    *Stmt
}

func msgCoq(variant string, m uint64) string {
	switch variant {
	case "fail":
		return "MFail"
	case "failnow":
		return "MFailNow"
	case "skipnow":
		return "MSkipNow"
	case "nilderef":
		return "(MUser 777000001)"
	}
	return fmt.Sprintf("(MUser %d)", m)
}

func (s *Stmt) coq() string {
	switch s.Op {
	case "ret":
		return "(SRet " + s.E.coq() + ")"
	case "draw":
		return fmt.Sprintf("(SDraw %v %s %s)", s.Raw, s.G.coq(), s.Next.coq())
	case "if":
		return "(SIf " + s.C.coq() + " " + s.A.coq() + " " + s.B.coq() + ")"
	case "fail":
		k := map[string]string{"error": "KError", "fatal": "KFatal", "panic": "KPanic"}[s.Kind]
		return fmt.Sprintf("(SFail %s %d %s %s)", k, s.Id, msgCoq(s.Variant, s.Msg), s.Next.coq())
	case "failv":
		k := map[string]string{"error": "KError", "fatal": "KFatal", "panic": "KPanic"}[s.Kind]
		return fmt.Sprintf("(SFailV %s %d %s %s %s)", k, s.Id, s.E.coq(), s.D.coq(), s.Next.coq())
	case "skip":
		return "(SSkip " + msgCoq(s.Variant, s.Msg) + ")"
	case "cleanup":
		return fmt.Sprintf("(SCleanup %d %s %s)", s.Id, s.A.coq(), s.Next.coq())
	case "context":
		return "(SContext " + s.Next.coq() + ")"
	case "failed":
		return "(SFailed " + s.Next.coq() + ")"
	case "log":
		return fmt.Sprintf("(SLog %d %s)", s.Msg, s.Next.coq())
	case "repeat":
		chk := "None"
		if s.A != nil {
			chk = "(Some " + s.A.coq() + ")"
		}
		ss := make([]string, len(s.Acts))
		for i, a := range s.Acts {
			ss[i] = a.coq()
		}
		return fmt.Sprintf("(SRepeat %d %d %s %s [%s] %s)", s.Id, s.K, s.E.coq(), chk, strings.Join(ss, "; "), s.Next.coq())
	}
	panic("stmt " + s.Op)
}

func wordsCoq(ws []uint64) string {
	ss := make([]string, len(ws))
	for i, w := range ws {
		ss[i] = fmt.Sprint(w)
	}
	return "[" + strings.Join(ss, "; ") + "]"
}
