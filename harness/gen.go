package main

// Random generation of harness programs and bitstreams. Every choice comes from one splitmix64
// state, so a (seed, index) pair replays exactly.

import (
	"math"
)

type Rng struct{ s uint64 }

func (r *Rng) next() uint64 {
	r.s += 0x9e3779b97f4a7c15
	z := r.s
	z = (z ^ (z >> 30)) * 0xbf58476d1ce4e5b9
	z = (z ^ (z >> 27)) * 0x94d049bb133111eb
	return z ^ (z >> 31)
}
func (r *Rng) intn(n int) int       { return int(r.next() % uint64(n)) }
func (r *Rng) chance(pct int) bool  { return r.intn(100) < pct }
func pick[T any](r *Rng, xs ...T) T { return xs[r.intn(len(xs))] }

// Profile selects which constructs a generated program may use (weights 0 = never).
type Profile struct {
	Leafs           bool // only leaf draws (C03 value-level)
	Collections     int
	Rejecting       int // distinct slices over tiny domains, filters, maps with bool keys
	Custom          int
	Repeat          int
	Fail            int // fatal/panic failures on drawn conditions
	NonFatal        int
	Skip            int
	Cleanup         int
	Context         int
	MaxDepth        int
	MaxDraws        int
	CleanupPanicPct int // share of cleanup functions that panic / fail fatally
}

var ProfAll = Profile{Collections: 3, Rejecting: 3, Custom: 2, Repeat: 2, Fail: 3, NonFatal: 2, Skip: 2, Cleanup: 2, Context: 1, MaxDepth: 3, MaxDraws: 4}
var ProfPure = Profile{Collections: 3, Rejecting: 4, Custom: 2, Repeat: 2, Fail: 3, NonFatal: 0, Skip: 2, Cleanup: 0, Context: 0, MaxDepth: 3, MaxDraws: 4}
var ProfCleanups = Profile{Collections: 1, Rejecting: 1, Custom: 2, Repeat: 1, Fail: 2, NonFatal: 1, Skip: 1, Cleanup: 14, Context: 2, MaxDepth: 2, MaxDraws: 8, CleanupPanicPct: 50}
var ProfValues = Profile{Collections: 4, Rejecting: 3, Custom: 1, Repeat: 0, Fail: 0, NonFatal: 0, Skip: 0, Cleanup: 0, Context: 0, MaxDepth: 3, MaxDraws: 3}

type pgen struct {
	r      *Rng
	pf     Profile
	nextID int
	pool   []uint64
}

// msg: failure / skip / log message ids; half of the programs draw them from a pool of one to three ids, so that
// different failure sites carry the same message
func (g *pgen) msg() uint64 {
	if len(g.pool) > 0 {
		return g.pool[g.r.intn(len(g.pool))]
	}
	return uint64(g.r.intn(50))
}

func (g *pgen) id() int {
	g.nextID++
	if g.nextID >= len(tramps) {
		g.nextID = len(tramps) - 1
	}
	return g.nextID
}

var boundaryU = []uint64{0, 1, 2, 3, 7, 8, 255, 256, 1 << 16, 1<<31 - 1, 1 << 31, 1<<32 - 1, 1 << 32, 1<<53 - 1, 1 << 53,
	1<<55 - 1, 1 << 55, 1 << 56, 1<<59 + 1, 1 << 60, 1<<62 - 1, 1 << 62, 1<<63 - 1, 1 << 63, 1<<63 + 1, math.MaxUint64 - 1, math.MaxUint64}
var boundaryI = []int64{0, 1, -1, 2, -2, 5, -5, 127, -128, 128, 255, 1 << 15, -(1 << 15), 1<<31 - 1, -(1 << 31), 1 << 32, 1 << 53, -(1 << 53),
	1<<62 - 1, 1 << 62, -(1 << 62), math.MaxInt64 - 1, math.MaxInt64, math.MinInt64, math.MinInt64 + 1}

func (g *pgen) u64() uint64 {
	switch g.r.intn(4) {
	case 0:
		return pick(g.r, boundaryU...)
	case 1:
		return uint64(g.r.intn(20))
	case 2:
		return g.r.next() >> uint(g.r.intn(64))
	}
	return g.r.next()
}
func (g *pgen) i64() int64 {
	switch g.r.intn(4) {
	case 0:
		return pick(g.r, boundaryI...)
	case 1:
		return int64(g.r.intn(21)) - 10
	case 2:
		return int64(g.r.next()) >> uint(g.r.intn(64))
	}
	return int64(g.r.next())
}

func (g *pgen) leaf(tiny bool) *Gen {
	r := g.r
	switch r.intn(6) {
	case 0:
		return &Gen{Op: "bool"}
	case 1, 2:
		d := &Gen{Op: "uint"}
		if tiny {
			d.Kind, d.Variant, d.UMin = "Uint64", "range", uint64(r.intn(3))
			d.UMax = d.UMin + uint64(r.intn(3))
			return d
		}
		d.Kind = pick(r, "Byte", "Uint", "Uint8", "Uint16", "Uint32", "Uint64", "Uintptr")
		d.Variant = pick(r, "full", "min", "max", "range", "range")
		hi := uintBounds(d.Kind)
		a, b := g.u64(), g.u64()
		if r.chance(30) {
			b = a + uint64(r.intn(3)) // adjacent / equal bounds
			if b < a {
				b = a
			}
		}
		if hi != math.MaxUint64 {
			a, b = a%(hi+1), b%(hi+1)
		}
		if a > b {
			a, b = b, a
		}
		d.UMin, d.UMax = a, b
		d.normalize()
		return d
	case 3, 4:
		d := &Gen{Op: "int"}
		if tiny {
			d.Kind, d.Variant, d.IMin = "Int64", "range", int64(r.intn(4))-2
			d.IMax = d.IMin + int64(r.intn(3))
			return d
		}
		d.Kind = pick(r, "Int", "Int8", "Int16", "Int32", "Int64")
		d.Variant = pick(r, "full", "min", "max", "range", "range")
		lo, hi := intBounds(d.Kind)
		a, b := g.i64(), g.i64()
		if r.chance(30) {
			b = a + int64(r.intn(3))
			if b < a {
				b = a
			}
		}
		clamp := func(x int64) int64 {
			if lo == math.MinInt64 {
				return x
			}
			span := uint64(hi-lo) + 1
			return lo + int64(uint64(x-lo)%span)
		}
		a, b = clamp(a), clamp(b)
		if a > b {
			a, b = b, a
		}
		d.IMin, d.IMax = a, b
		d.normalize()
		return d
	}
	return &Gen{Op: "sampled", N: 1 + r.intn(5)}
}

func (g *pgen) lens() (int, int) {
	r := g.r
	switch r.intn(6) {
	case 0:
		return -1, -1
	case 1:
		return 0, 0
	case 2:
		n := r.intn(4)
		return n, n
	case 3:
		return r.intn(3), -1
	case 4:
		return -1, r.intn(5)
	}
	a := r.intn(4)
	return a, a + r.intn(4)
}

func (g *pgen) keyLeaf() *Gen {
	switch g.r.intn(3) {
	case 0:
		return &Gen{Op: "bool"}
	case 1:
		a := uint64(g.r.intn(3))
		return &Gen{Op: "uint", Kind: "Uint64", Variant: "range", UMin: a, UMax: a + uint64(g.r.intn(4))}
	}
	a := int64(g.r.intn(5)) - 2
	return &Gen{Op: "int", Kind: "Int64", Variant: "range", IMin: a, IMax: a + int64(g.r.intn(4))}
}

func (g *pgen) fn1() *Fn1 {
	switch g.r.intn(4) {
	case 0:
		return &Fn1{Op: "id"}
	case 1:
		return &Fn1{Op: "modc", K: int64(1 + g.r.intn(4))}
	case 2:
		return &Fn1{Op: "addc", K: int64(g.r.intn(7)) - 3}
	}
	return &Fn1{Op: "len"}
}
func (g *pgen) pr1() *Pr1 {
	switch g.r.intn(5) {
	case 0:
		k := int64(2 + g.r.intn(3))
		return &Pr1{Op: "modeq", K: k, R: int64(g.r.intn(int(k)))}
	case 1:
		return &Pr1{Op: "ltc", K: int64(g.r.intn(6)) - 1}
	case 2:
		return &Pr1{Op: "not", P: &Pr1{Op: "ltc", K: int64(g.r.intn(4))}}
	case 3:
		return &Pr1{Op: "lenlt", K: int64(1 + g.r.intn(3))}
	}
	return &Pr1{Op: "true"}
}

func (g *pgen) gen(depth int) *Gen {
	r, pf := g.r, g.pf
	if pf.Leafs || depth >= pf.MaxDepth {
		return g.leaf(r.chance(40))
	}
	w := []int{4, pf.Collections, pf.Rejecting, pf.Custom, 1}
	tot := 0
	for _, x := range w {
		tot += x
	}
	c := r.intn(tot)
	k := 0
	for c >= w[k] {
		c -= w[k]
		k++
	}
	switch k {
	case 0:
		return g.leaf(r.chance(30))
	case 1: // non-rejecting collections and wrappers
		switch r.intn(6) {
		case 0:
			a, b := g.lens()
			return &Gen{Op: "slice", MinLen: a, MaxLen: b, Subs: []*Gen{g.gen(depth + 1)}}
		case 1:
			return &Gen{Op: "perm", N: r.intn(6)}
		case 2:
			return &Gen{Op: "ptr", AllowNil: r.chance(60), Subs: []*Gen{g.gen(depth + 1)}}
		case 3:
			n := 1 + r.intn(3)
			subs := make([]*Gen, n)
			for i := range subs {
				subs[i] = g.gen(depth + 1)
			}
			return &Gen{Op: "oneof", Subs: subs}
		case 4:
			return &Gen{Op: "mapfn", Fn: g.fn1(), Subs: []*Gen{g.gen(depth + 1)}}
		}
		return &Gen{Op: "deferred", Subs: []*Gen{g.gen(depth + 1)}}
	case 2: // rejection-heavy
		switch r.intn(4) {
		case 0:
			a, b := g.lens()
			return &Gen{Op: "sliced", MinLen: a, MaxLen: b, Fn: g.fn1(), Subs: []*Gen{g.leaf(true)}}
		case 1:
			a, b := g.lens()
			return &Gen{Op: "map", MinLen: a, MaxLen: b, Subs: []*Gen{g.keyLeaf(), g.gen(depth + 1)}}
		case 2:
			a, b := g.lens()
			return &Gen{Op: "mapv", MinLen: a, MaxLen: b, Fn: g.fn1(), Subs: []*Gen{g.leaf(true)}}
		}
		return &Gen{Op: "filter", Pr: g.pr1(), Subs: []*Gen{g.gen(depth + 1)}}
	case 3:
		sub := *g
		sub.pf.Repeat = 0
		body := sub.body(depth+1, 0, 1+r.intn(2), true)
		g.nextID = sub.nextID
		return &Gen{Op: "custom", Body: body}
	}
	return g.leaf(true)
}

func cvar(i int) *VExp   { return &VExp{Op: "var", I: i} }
func cconst(v Val) *VExp { return &VExp{Op: "const", V: v} }
func retUnit() *Stmt     { return &Stmt{Op: "ret", E: cconst(nil)} }
func retVar(i int) *Stmt { return &Stmt{Op: "ret", E: cvar(i)} }

func (g *pgen) cond(nvars int) *Cond {
	r := g.r
	if nvars == 0 {
		return &Cond{Op: "true"}
	}
	v := cvar(r.intn(nvars))
	switch r.intn(5) {
	case 0:
		return &Cond{Op: "lt", A: v, B: cconst(zv(int64(r.intn(8)) - 2))}
	case 1:
		return &Cond{Op: "lt", A: cconst(zv(int64(r.intn(6)))), B: &VExp{Op: "len", A: v}}
	case 2:
		k := int64(2 + r.intn(3))
		return &Cond{Op: "eq", A: &VExp{Op: "modc", A: v, K: k}, B: cconst(zv(int64(r.intn(int(k)))))}
	case 3:
		return &Cond{Op: "not", C: &Cond{Op: "lt", A: v, B: cconst(zv(int64(r.intn(100))))}}
	}
	return &Cond{Op: "istrue", A: v}
}

// terminal: how a branch ends
func (g *pgen) terminal(nvars int, inCustom bool) *Stmt {
	r, pf := g.r, g.pf
	w := []int{3, pf.Fail, pf.Skip}
	tot := w[0] + w[1] + w[2]
	c := r.intn(tot)
	switch {
	case c < w[0]:
		if nvars > 0 && (inCustom || r.chance(50)) {
			return retVar(r.intn(nvars))
		}
		if inCustom {
			return &Stmt{Op: "ret", E: cconst(zv(int64(r.intn(5))))}
		}
		return retUnit()
	case c < w[0]+w[1]:
		if nvars > 0 && r.chance(35) {
			// message and recursion depth depend on drawn values
			return &Stmt{Op: "failv", Kind: pick(r, "fatal", "fatal", "panic"), Id: g.id(), E: cvar(r.intn(nvars)), D: cvar(r.intn(nvars)), Next: retUnit()}
		}
		if r.chance(70) {
			return &Stmt{Op: "fail", Kind: "fatal", Variant: pick(r, "fatalf", "fatalf", "fatal", "failnow"), Id: g.id(), Msg: g.msg(), Next: retUnit()}
		}
		return &Stmt{Op: "fail", Kind: "panic", Variant: pick(r, "panicstr", "panicerr", "nilderef"), Id: g.id(), Msg: g.msg(), Next: retUnit()}
	}
	return &Stmt{Op: "skip", Variant: pick(r, "skip", "skipf", "skipnow"), Msg: g.msg()}
}

// body generates a statement tree with up to `draws` further draws
func (g *pgen) body(depth int, nvars int, draws int, inCustom bool) *Stmt {
	r, pf := g.r, g.pf
	if draws <= 0 {
		return g.terminal(nvars, inCustom)
	}
	// side statements before the next draw
	w := []int{6, 3, pf.NonFatal, pf.Cleanup, pf.Context, 1, pf.Repeat}
	if nvars == 0 {
		w[1] = 0
	}
	if depth >= pf.MaxDepth {
		w[6] = 0
	}
	tot := 0
	for _, x := range w {
		tot += x
	}
	c := r.intn(tot)
	k := 0
	for c >= w[k] {
		c -= w[k]
		k++
	}
	switch k {
	case 0:
		raw := false
		d := g.gen(depth)
		if d.Op == "bool" || d.Op == "uint" || d.Op == "int" {
			raw = r.chance(50)
		}
		return &Stmt{Op: "draw", Raw: raw, G: d, Next: g.body(depth, nvars+1, draws-1, inCustom)}
	case 1:
		return &Stmt{Op: "if", C: g.cond(nvars), A: g.terminalOrBody(depth, nvars, draws-1, inCustom), B: g.body(depth, nvars, draws-1, inCustom)}
	case 2:
		return &Stmt{Op: "fail", Kind: "error", Variant: pick(r, "errorf", "error", "fail"), Id: g.id(), Msg: g.msg(), Next: g.body(depth, nvars, draws-1, inCustom)}
	case 3:
		fn := g.cleanupBody(nvars)
		return &Stmt{Op: "cleanup", Id: g.id(), A: fn, Next: g.body(depth, nvars, draws-1, inCustom)}
	case 4:
		return &Stmt{Op: "context", Next: g.body(depth, nvars+1, draws-1, inCustom)}
	case 5:
		if r.chance(50) {
			return &Stmt{Op: "failed", Next: g.body(depth, nvars+1, draws-1, inCustom)}
		}
		return &Stmt{Op: "log", Msg: g.msg(), Next: g.body(depth, nvars, draws-1, inCustom)}
	}
	return g.repeat(depth, nvars, draws-1, inCustom)
}

func (g *pgen) terminalOrBody(depth, nvars, draws int, inCustom bool) *Stmt {
	if g.r.chance(60) {
		return g.terminal(nvars, inCustom)
	}
	return g.body(depth, nvars, draws, inCustom)
}

func (g *pgen) cleanupBody(nvars int) *Stmt {
	r, pf := g.r, g.pf
	if pf.CleanupPanicPct > 0 && r.chance(pf.CleanupPanicPct) {
		if r.chance(50) {
			return &Stmt{Op: "fail", Kind: "fatal", Variant: "fatalf", Id: g.id(), Msg: g.msg(), Next: retUnit()}
		}
		return &Stmt{Op: "fail", Kind: "panic", Variant: "panicstr", Id: g.id(), Msg: g.msg(), Next: retUnit()}
	}
	switch r.intn(8) {
	case 0:
		if pf.NonFatal > 0 {
			return &Stmt{Op: "fail", Kind: "error", Variant: "errorf", Id: g.id(), Msg: g.msg(), Next: retUnit()}
		}
	case 1:
		if pf.Fail > 0 {
			return &Stmt{Op: "fail", Kind: "fatal", Variant: "fatalf", Id: g.id(), Msg: g.msg(), Next: retUnit()}
		}
	case 2:
		if pf.Context > 0 {
			return &Stmt{Op: "context", Next: retUnit()}
		}
	case 3:
		if pf.Cleanup > 1 {
			return &Stmt{Op: "cleanup", Id: g.id(), A: &Stmt{Op: "log", Msg: 7, Next: retUnit()}, Next: retUnit()}
		}
	case 4:
		if pf.Fail > 0 {
			return &Stmt{Op: "fail", Kind: "panic", Variant: "panicstr", Id: g.id(), Msg: g.msg(), Next: retUnit()}
		}
	case 6:
		if pf.Custom > 0 && pf.Context > 0 {
			// a cleanup function that draws from a Custom generator whose function asks for its context: the inner T is
			// new, its context must be live although the outer T is already cleaning up
			leaf := &Gen{Op: "uint", Kind: "Uint64", Variant: "range", UMin: 0, UMax: 3}
			inner := &Stmt{Op: "context", Next: &Stmt{Op: "draw", G: leaf, Next: &Stmt{Op: "ret", E: cconst(zv(1))}}}
			return &Stmt{Op: "draw", G: &Gen{Op: "custom", Body: inner}, Next: retUnit()}
		}
	case 5:
		if pf.Skip > 0 { // a cleanup function that skips the test case
			return &Stmt{Op: "skip", Variant: pick(r, "skip", "skipnow", "skipf"), Msg: g.msg()}
		}
	}
	return &Stmt{Op: "log", Msg: g.msg(), Next: retUnit()}
}

// repeat: state is an integer; actions draw, sometimes skip, and return a new state
func (g *pgen) repeat(depth, nvars, draws int, inCustom bool) *Stmt {
	r, pf := g.r, g.pf
	st := nvars // index of the state variable inside actions
	nact := 1 + r.intn(3)
	acts := make([]*Stmt, nact)
	for i := range acts {
		var a *Stmt
		inc := &Stmt{Op: "ret", E: &VExp{Op: "add", A: cvar(st), B: cconst(zv(int64(1 + r.intn(3))))}}
		switch r.intn(7) {
		case 0: // skip before drawing on a state condition
			a = &Stmt{Op: "if", C: &Cond{Op: "eq", A: &VExp{Op: "modc", A: cvar(st), K: 2}, B: cconst(zv(int64(r.intn(2))))},
				A: &Stmt{Op: "skip", Variant: "skip", Msg: 1}, B: inc}
		case 1: // draw, then maybe skip (rejected step)
			a = &Stmt{Op: "draw", Raw: true, G: g.leaf(true), Next: &Stmt{Op: "if", C: g.cond(st + 2), A: &Stmt{Op: "skip", Variant: "skipf", Msg: 2}, B: inc}}
		case 2: // draw and fail on a condition
			if pf.Fail > 0 {
				a = &Stmt{Op: "draw", Raw: r.chance(50), G: g.leaf(true), Next: &Stmt{Op: "if", C: g.cond(st + 2),
					A: &Stmt{Op: "fail", Kind: "fatal", Variant: "fatalf", Id: g.id(), Msg: g.msg(), Next: retUnit()}, B: inc}}
			}
		case 3:
			if pf.NonFatal > 0 {
				a = &Stmt{Op: "if", C: &Cond{Op: "lt", A: cconst(zv(int64(2 + r.intn(6)))), B: cvar(st)},
					A: &Stmt{Op: "fail", Kind: "error", Variant: "errorf", Id: g.id(), Msg: g.msg(), Next: inc}, B: inc}
			}
		case 4:
			if pf.Cleanup > 0 {
				a = &Stmt{Op: "cleanup", Id: g.id(), A: &Stmt{Op: "log", Msg: 3, Next: retUnit()}, Next: inc}
			} else if pf.NonFatal > 0 && pf.Skip > 0 {
				// falsifies (non-fatally) and then skips: the machine stops, the skip does not make the step "rejected"
				a = &Stmt{Op: "if", C: &Cond{Op: "lt", A: cconst(zv(int64(1 + r.intn(5)))), B: cvar(st)},
					A: &Stmt{Op: "fail", Kind: "error", Variant: "errorf", Id: g.id(), Msg: g.msg(), Next: &Stmt{Op: "skip", Variant: "skip", Msg: 5}}, B: inc}
			}
		case 5: // a draw that can run out of retries inside the action (distinct elements of a tiny domain)
			if pf.Rejecting > 0 {
				n := 2 + r.intn(2)
				d := &Gen{Op: "sliced", MinLen: n, MaxLen: n, Fn: &Fn1{Op: "id"}, Subs: []*Gen{{Op: "int", Kind: "Int64", Variant: "range", IMin: 0, IMax: int64(n - 1 - r.intn(2))}}}
				a = &Stmt{Op: "draw", G: d, Next: inc}
			}
		}
		if a == nil && pf.NonFatal > 0 && pf.Skip > 0 && r.chance(30) {
			a = &Stmt{Op: "draw", Raw: true, G: g.leaf(true), Next: &Stmt{Op: "if", C: &Cond{Op: "lt", A: cconst(zv(int64(1 + r.intn(5)))), B: cvar(st)},
				A: &Stmt{Op: "fail", Kind: "error", Variant: "errorf", Id: g.id(), Msg: g.msg(), Next: &Stmt{Op: "skip", Variant: "skip", Msg: 5}}, B: inc}}
		}
		if a == nil {
			a = &Stmt{Op: "draw", Raw: true, G: g.leaf(true), Next: inc}
		}
		acts[i] = a
	}
	var chk *Stmt
	if r.chance(70) {
		switch {
		case pf.Fail > 0 && r.chance(50):
			chk = &Stmt{Op: "if", C: &Cond{Op: "lt", A: cconst(zv(int64(r.intn(15)))), B: cvar(st)},
				A: &Stmt{Op: "fail", Kind: "fatal", Variant: "fatalf", Id: g.id(), Msg: g.msg(), Next: retUnit()}, B: retUnit()}
		case pf.NonFatal > 0 && r.chance(50):
			chk = &Stmt{Op: "if", C: &Cond{Op: "lt", A: cconst(zv(int64(r.intn(15)))), B: cvar(st)},
				A: &Stmt{Op: "fail", Kind: "error", Variant: "errorf", Id: g.id(), Msg: g.msg(), Next: retUnit()}, B: retUnit()}
		case pf.Skip > 0 && r.chance(25):
			// the invariant itself skips the test case on a state condition
			chk = &Stmt{Op: "if", C: &Cond{Op: "lt", A: cconst(zv(int64(1 + r.intn(8)))), B: cvar(st)},
				A: &Stmt{Op: "skip", Variant: "skip", Msg: 4}, B: retUnit()}
		default:
			chk = &Stmt{Op: "log", Msg: 9, Next: retUnit()}
		}
	}
	return &Stmt{Op: "repeat", Id: g.id(), E: cconst(zv(int64(r.intn(4)))), A: chk, Acts: acts, Next: g.body(depth, nvars+1, draws, inCustom)}
}

func GenProgram(r *Rng, pf Profile) *Program {
	g := &pgen{r: r, pf: pf}
	if r.chance(50) {
		for k := 1 + r.intn(3); k > 0; k-- {
			g.pool = append(g.pool, uint64(r.intn(50)))
		}
	}
	root := g.body(0, 0, 1+r.intn(pf.MaxDraws), false)
	return NewProgram(root)
}

// ---- bitstreams ----
func GenWords(r *Rng, n int) []uint64 {
	ws := make([]uint64, n)
	fam := r.intn(6)
	for i := range ws {
		switch fam {
		case 0:
			ws[i] = r.next()
		case 1:
			ws[i] = 0
		case 2:
			ws[i] = math.MaxUint64
		case 3:
			ws[i] = uint64(1) << uint(r.intn(64))
		case 4:
			ws[i] = uint64(1)<<uint(r.intn(64)) - 1
		default: // mixture, biased towards small words so that coins stop and lengths are short
			switch r.intn(5) {
			case 0:
				ws[i] = r.next()
			case 1:
				ws[i] = uint64(r.intn(4))
			case 2:
				ws[i] = uint64(1)<<52 + uint64(r.intn(3)) - 1
			case 3:
				ws[i] = r.next() >> uint(r.intn(64))
			default:
				ws[i] = uint64(1)<<uint(r.intn(64)) - uint64(r.intn(2))
			}
		}
	}
	return ws
}
