package main

// Interpreter of harness programs against the real rapid, with the harness's own event log:
// this log - not rapid's output - is the observation of what rapid did to user code.

import (
	"context"
	"errors"
	"fmt"
	"math"
	"math/big"
	"strings"

	"pgregory.net/rapid"
)

type G = *rapid.Generator[Val]

// Program = a statement tree plus the generator objects built for it (built once, like a
// package-level generator in user code).
type Program struct {
	Root  *Stmt
	gens  map[*Gen]G
	raws  map[*Gen]func(*rapid.T) Val
	Sfill bool
}

// one execution context (one Check / one run): event log and context identities
type Run struct {
	Events []string          // Coq uev terms
	ctxs   []context.Context // every context object seen in this run
	cur    []context.Context // per nesting level of Custom bodies: the context last returned as live
	draws  []int             // per nesting level of Custom bodies: Draw calls made on that T so far

	CtxViolations []string
	Rep           []string // state-machine events with begin/end markers (oracle of C08)
	Brk           []string // all events plus the end of every cleanup function (oracle of C10)
}

func NewRun() *Run { return &Run{draws: []int{0}} }

func (r *Run) ev(s string) {
	r.Events = append(r.Events, s)
	r.Brk = append(r.Brk, s)
	if s == "UChk" || strings.HasPrefix(s, "(UAct") {
		r.Rep = append(r.Rep, s)
	}
	if strings.HasPrefix(s, "(USignal KError") {
		r.Rep = append(r.Rep, "S") // a non-fatal falsification: every enclosing machine must stop at its next decision point
	}
	switch {
	case s == "UCustomBegin":
		r.draws = append(r.draws, 0)
	case strings.HasPrefix(s, "(UCustomEnd"):
		r.draws = r.draws[:len(r.draws)-1]
		if len(r.cur) > len(r.draws) {
			r.cur = r.cur[:len(r.draws)]
		}
	case strings.HasPrefix(s, "(UDraw"):
		r.draws[len(r.draws)-1]++
	}
}

func NewProgram(root *Stmt) *Program {
	p := &Program{Root: root, gens: map[*Gen]G{}, raws: map[*Gen]func(*rapid.T) Val{}}
	p.fillStmt(root)
	return p
}

// fill coin thresholds from the real newRepeat and build generator objects
func (p *Program) fillStmt(s *Stmt) {
	if s == nil {
		return
	}
	switch s.Op {
	case "draw":
		p.fillGen(s.G)
	case "repeat":
		s.K = rapid.VerifCoinThreshold(-1, -1, float64(rapid.VerifGetFlags().Steps))
		for _, a := range s.Acts {
			p.fillStmt(a)
		}
	}
	p.fillStmt(s.A)
	p.fillStmt(s.B)
	p.fillStmt(s.Next)
}

func (p *Program) fillGen(g *Gen) {
	for _, s := range g.Subs {
		p.fillGen(s)
	}
	switch g.Op {
	case "slice", "sliced", "map", "mapv":
		g.K = rapid.VerifCoinThreshold(g.MinLen, g.MaxLen, -1)
	case "custom":
		p.fillStmt(g.Body)
	}
}

func intBounds(kind string) (int64, int64) {
	switch kind {
	case "Int8":
		return math.MinInt8, math.MaxInt8
	case "Int16":
		return math.MinInt16, math.MaxInt16
	case "Int32":
		return math.MinInt32, math.MaxInt32
	}
	return math.MinInt64, math.MaxInt64 // Int, Int64
}
func uintBounds(kind string) uint64 {
	switch kind {
	case "Byte", "Uint8":
		return math.MaxUint8
	case "Uint16":
		return math.MaxUint16
	case "Uint32":
		return math.MaxUint32
	}
	return math.MaxUint64 // Uint, Uint64, Uintptr
}

// normalize fills the effective bounds of integer descriptions from kind+variant
func (g *Gen) normalize() {
	switch g.Op {
	case "int":
		lo, hi := intBounds(g.Kind)
		switch g.Variant {
		case "full":
			g.IMin, g.IMax = lo, hi
		case "min":
			g.IMax = hi
		case "max":
			g.IMin = lo
		}
	case "uint":
		hi := uintBounds(g.Kind)
		switch g.Variant {
		case "full":
			g.UMin, g.UMax = 0, hi
		case "min":
			g.UMax = hi
		case "max":
			g.UMin = 0
		}
	}
}

func mk[T any](g *rapid.Generator[T], conv func(T) Val) (G, func(*rapid.T) Val) {
	return rapid.Map(g, conv), func(t *rapid.T) Val { return conv(g.Draw(t, "x")) }
}
func sI[T int | int8 | int16 | int32 | int64](v T) Val { return zv(int64(v)) }
func sU[T uint | uint8 | uint16 | uint32 | uint64 | uintptr](v T) Val {
	return uv(uint64(v))
}

// typed integer generators through every public constructor family
func buildInt(g *Gen) (G, func(*rapid.T) Val) {
	a, b := g.IMin, g.IMax
	switch g.Kind + "/" + g.Variant {
	case "Int/full":
		return mk(rapid.Int(), sI[int])
	case "Int/min":
		return mk(rapid.IntMin(int(a)), sI[int])
	case "Int/max":
		return mk(rapid.IntMax(int(b)), sI[int])
	case "Int/range":
		return mk(rapid.IntRange(int(a), int(b)), sI[int])
	case "Int8/full":
		return mk(rapid.Int8(), sI[int8])
	case "Int8/min":
		return mk(rapid.Int8Min(int8(a)), sI[int8])
	case "Int8/max":
		return mk(rapid.Int8Max(int8(b)), sI[int8])
	case "Int8/range":
		return mk(rapid.Int8Range(int8(a), int8(b)), sI[int8])
	case "Int16/full":
		return mk(rapid.Int16(), sI[int16])
	case "Int16/min":
		return mk(rapid.Int16Min(int16(a)), sI[int16])
	case "Int16/max":
		return mk(rapid.Int16Max(int16(b)), sI[int16])
	case "Int16/range":
		return mk(rapid.Int16Range(int16(a), int16(b)), sI[int16])
	case "Int32/full":
		return mk(rapid.Int32(), sI[int32])
	case "Int32/min":
		return mk(rapid.Int32Min(int32(a)), sI[int32])
	case "Int32/max":
		return mk(rapid.Int32Max(int32(b)), sI[int32])
	case "Int32/range":
		return mk(rapid.Int32Range(int32(a), int32(b)), sI[int32])
	case "Int64/full":
		return mk(rapid.Int64(), sI[int64])
	case "Int64/min":
		return mk(rapid.Int64Min(a), sI[int64])
	case "Int64/max":
		return mk(rapid.Int64Max(b), sI[int64])
	}
	return mk(rapid.Int64Range(a, b), sI[int64])
}

func buildUint(g *Gen) (G, func(*rapid.T) Val) {
	a, b := g.UMin, g.UMax
	switch g.Kind + "/" + g.Variant {
	case "Byte/full":
		return mk(rapid.Byte(), sU[byte])
	case "Byte/min":
		return mk(rapid.ByteMin(byte(a)), sU[byte])
	case "Byte/max":
		return mk(rapid.ByteMax(byte(b)), sU[byte])
	case "Byte/range":
		return mk(rapid.ByteRange(byte(a), byte(b)), sU[byte])
	case "Uint/full":
		return mk(rapid.Uint(), sU[uint])
	case "Uint/min":
		return mk(rapid.UintMin(uint(a)), sU[uint])
	case "Uint/max":
		return mk(rapid.UintMax(uint(b)), sU[uint])
	case "Uint/range":
		return mk(rapid.UintRange(uint(a), uint(b)), sU[uint])
	case "Uint8/full":
		return mk(rapid.Uint8(), sU[uint8])
	case "Uint8/min":
		return mk(rapid.Uint8Min(uint8(a)), sU[uint8])
	case "Uint8/max":
		return mk(rapid.Uint8Max(uint8(b)), sU[uint8])
	case "Uint8/range":
		return mk(rapid.Uint8Range(uint8(a), uint8(b)), sU[uint8])
	case "Uint16/full":
		return mk(rapid.Uint16(), sU[uint16])
	case "Uint16/min":
		return mk(rapid.Uint16Min(uint16(a)), sU[uint16])
	case "Uint16/max":
		return mk(rapid.Uint16Max(uint16(b)), sU[uint16])
	case "Uint16/range":
		return mk(rapid.Uint16Range(uint16(a), uint16(b)), sU[uint16])
	case "Uint32/full":
		return mk(rapid.Uint32(), sU[uint32])
	case "Uint32/min":
		return mk(rapid.Uint32Min(uint32(a)), sU[uint32])
	case "Uint32/max":
		return mk(rapid.Uint32Max(uint32(b)), sU[uint32])
	case "Uint32/range":
		return mk(rapid.Uint32Range(uint32(a), uint32(b)), sU[uint32])
	case "Uint64/full":
		return mk(rapid.Uint64(), sU[uint64])
	case "Uint64/min":
		return mk(rapid.Uint64Min(a), sU[uint64])
	case "Uint64/max":
		return mk(rapid.Uint64Max(b), sU[uint64])
	case "Uintptr/full":
		return mk(rapid.Uintptr(), sU[uintptr])
	case "Uintptr/min":
		return mk(rapid.UintptrMin(uintptr(a)), sU[uintptr])
	case "Uintptr/max":
		return mk(rapid.UintptrMax(uintptr(b)), sU[uintptr])
	case "Uintptr/range":
		return mk(rapid.UintptrRange(uintptr(a), uintptr(b)), sU[uintptr])
	}
	return mk(rapid.Uint64Range(a, b), sU[uint64])
}

func sampledVals(n int) []Val {
	vs := make([]Val, n)
	for i := range vs {
		vs[i] = zv(int64(i))
	}
	return vs
}

func decodeKey(s string) Val {
	switch {
	case s == "bT":
		return true
	case s == "bF":
		return false
	case strings.HasPrefix(s, "z"):
		z, _ := new(big.Int).SetString(s[1:], 10)
		return z
	}
	panic("decodeKey " + s)
}

// build returns the generator used in nested position (type-erased to Val)
func (p *Program) build(g *Gen, run *Run) G {
	if x, ok := p.gens[g]; ok {
		return x
	}
	var x G
	switch g.Op {
	case "bool":
		x, p.raws[g] = mk(rapid.Bool(), func(b bool) Val { return b })
	case "uint":
		x, p.raws[g] = buildUint(g)
	case "int":
		x, p.raws[g] = buildInt(g)
	case "sampled":
		x = rapid.SampledFrom(sampledVals(g.N))
	case "oneof":
		subs := make([]G, len(g.Subs))
		for i, s := range g.Subs {
			subs[i] = p.build(s, run)
		}
		x = rapid.OneOf(subs...)
	case "ptr":
		x = rapid.Map(rapid.Ptr(p.build(g.Subs[0], run), g.AllowNil), func(q *Val) Val {
			if q == nil {
				return Ptr{Nil: true}
			}
			return Ptr{V: *q}
		})
	case "slice":
		x = rapid.Map(rapid.SliceOfN(p.build(g.Subs[0], run), g.MinLen, g.MaxLen), func(s []Val) Val { return s })
	case "sliced":
		fn := g.Fn
		x = rapid.Map(rapid.SliceOfNDistinct(p.build(g.Subs[0], run), g.MinLen, g.MaxLen, func(v Val) string { return canon(fn.eval(v)) }),
			func(s []Val) Val { return s })
	case "map":
		// the key generator must not add a second wrapper: build the typed leaf and map it to its key string
		var keyGen *rapid.Generator[string]
		switch g.Subs[0].Op {
		case "bool":
			keyGen = rapid.Map(rapid.Bool(), func(b bool) string { return canon(b) })
		case "uint":
			keyGen = rapid.Map(rapid.Uint64Range(g.Subs[0].UMin, g.Subs[0].UMax), func(u uint64) string { return canon(uv(u)) })
		case "int":
			keyGen = rapid.Map(rapid.Int64Range(g.Subs[0].IMin, g.Subs[0].IMax), func(i int64) string { return canon(zv(i)) })
		default:
			panic("map key must be a leaf")
		}
		x = rapid.Map(rapid.MapOfN(keyGen, p.build(g.Subs[1], run), g.MinLen, g.MaxLen), func(m map[string]Val) Val {
			out := MapV{}
			for k, v := range m {
				out = append(out, KV{decodeKey(k), v})
			}
			return sortMap(out)
		})
	case "mapv":
		fn := g.Fn
		x = rapid.Map(rapid.MapOfNValues(p.build(g.Subs[0], run), g.MinLen, g.MaxLen, func(v Val) string { return canon(fn.eval(v)) }),
			func(m map[string]Val) Val {
				out := MapV{}
				for _, v := range m {
					out = append(out, KV{fn.eval(v), v})
				}
				return sortMap(out)
			})
	case "perm":
		x = rapid.Map(rapid.Permutation(sampledVals(g.N)), func(s []Val) Val { return s })
	case "filter":
		pr := g.Pr
		x = p.build(g.Subs[0], run).Filter(func(v Val) bool { return pr.eval(v) })
	case "mapfn":
		fn := g.Fn
		x = rapid.Map(p.build(g.Subs[0], run), func(v Val) Val { return fn.eval(v) })
	case "custom":
		body := g.Body
		x = rapid.Custom(func(t *rapid.T) Val {
			r := curRun
			r.ev("UCustomBegin")
			done := false
			defer func() {
				if done {
					r.ev("(UCustomEnd 0)")
				} else {
					r.ev("(UCustomEnd 1)")
				}
			}()
			v := p.exec(t, body, nil, r)
			done = true
			return v
		})
	case "deferred":
		sub := p.build(g.Subs[0], run)
		x = rapid.Deferred(func() G { return sub })
	default:
		panic("build " + g.Op)
	}
	_ = x.String() // fix the group label before first use (labels come from an unsynchronised cache)
	p.gens[g] = x
	return x
}

// curRun: the run whose events are being recorded (harness programs are single-goroutine here)
var curRun *Run

type harnessErr struct{ s string }

func (e harnessErr) Error() string { return e.s }

func (p *Program) exec(t *rapid.T, s *Stmt, env []Val, r *Run) Val {
	switch s.Op {
	case "ret":
		return s.E.eval(env)
	case "draw":
		g := p.build(s.G, r)
		var v Val
		if s.Raw && p.raws[s.G] != nil {
			v = p.raws[s.G](t)
		} else {
			v = g.Draw(t, "v")
		}
		r.ev("(UDraw " + coqVal(v) + ")")
		return p.exec(t, s.Next, append(env[:len(env):len(env)], v), r)
	case "if":
		if s.C.eval(env) {
			return p.exec(t, s.A, env, r)
		}
		return p.exec(t, s.B, env, r)
	case "fail":
		k := map[string]string{"error": "KError", "fatal": "KFatal", "panic": "KPanic"}[s.Kind]
		r.ev(fmt.Sprintf("(USignal %s %s %d)", k, msgCoq(s.Variant, s.Msg), s.Id))
		tramps[s.Id](func() {
			switch s.Variant {
			case "errorf":
				t.Errorf("m%d", s.Msg)
			case "error":
				t.Error(fmt.Sprintf("m%d", s.Msg))
			case "fail":
				t.Fail()
			case "error-noargs": // like testing.T.Error(): marks the test failed, logs an empty line
				t.Error()
			case "errorf-empty":
				t.Errorf("")
			case "fail-then-errorf-empty":
				t.Fail()
				t.Errorf("")
			case "fatalf":
				t.Fatalf("m%d", s.Msg)
			case "fatal":
				t.Fatal(fmt.Sprintf("m%d", s.Msg))
			case "failnow":
				t.FailNow()
			case "panicstr":
				panic(fmt.Sprintf("m%d", s.Msg))
			case "panicerr":
				panic(errors.New(fmt.Sprintf("m%d", s.Msg)))
			case "nilderef":
				var q *Stmt
				sink = q.Op
			default:
				panic("bad variant " + s.Variant)
			}
		})
		return p.exec(t, s.Next, env, r)
	case "failv":
		k := map[string]string{"error": "KError", "fatal": "KFatal", "panic": "KPanic"}[s.Kind]
		m := floorMod(valZ(s.E.eval(env)), 50).Uint64()
		depth := int(floorMod(valZ(s.D.eval(env)), 4).Int64())
		r.ev(fmt.Sprintf("(USignal %s (MUser %d) %d)", k, m, s.Id+100*depth))
		recurse(depth, func() {
			tramps[s.Id](func() {
				switch s.Kind {
				case "error":
					t.Errorf("m%d", m)
				case "fatal":
					t.Fatalf("m%d", m)
				default:
					panic(fmt.Sprintf("m%d", m))
				}
			})
		})
		return p.exec(t, s.Next, env, r)
	case "skip":
		r.ev("(USkip " + msgCoq(s.Variant, s.Msg) + ")")
		switch s.Variant {
		case "skipf":
			t.Skipf("m%d", s.Msg)
		case "skipnow":
			t.SkipNow()
		default:
			t.Skip(fmt.Sprintf("m%d", s.Msg))
		}
		panic("unreachable")
	case "cleanup":
		envc := env[:len(env):len(env)]
		r.ev(fmt.Sprintf("(UReg %d)", s.Id))
		t.Cleanup(func() {
			r.ev(fmt.Sprintf("(URun %d)", s.Id))
			defer func() { r.Brk = append(r.Brk, fmt.Sprintf("(URunEnd %d)", s.Id)) }()
			p.exec(t, s.A, envc, r)
		})
		return p.exec(t, s.Next, env, r)
	case "context":
		ctx := t.Context()
		live := ctx.Err() == nil
		if live {
			// identity oracle: a live context must be the current one of this T, or a new one
			lvl := len(r.draws) - 1
			for len(r.cur) <= lvl {
				r.cur = append(r.cur, nil)
			}
			if r.cur[lvl] != ctx {
				for _, c := range r.ctxs {
					if c == ctx {
						r.CtxViolations = append(r.CtxViolations, "Context() returned a context of an earlier invocation")
					}
				}
				r.ctxs = append(r.ctxs, ctx)
				r.cur[lvl] = ctx
				r.ev("UCtxNew")
			}
			r.ev("(UCtxSeen true)")
		} else {
			r.ev("(UCtxSeen false)")
		}
		return p.exec(t, s.Next, append(env[:len(env):len(env)], live), r)
	case "failed":
		b := t.Failed()
		r.ev(fmt.Sprintf("(UFailedSeen %v)", b))
		return p.exec(t, s.Next, append(env[:len(env):len(env)], b), r)
	case "log":
		r.ev(fmt.Sprintf("(ULog %d)", s.Msg))
		t.Logf("L%d", s.Msg)
		return p.exec(t, s.Next, env, r)
	case "repeat":
		state := s.E.eval(env)
		actions := map[string]func(*rapid.T){}
		for i, a := range s.Acts {
			i, a := i, a
			actions[actionName(i, len(s.Acts))] = func(t *rapid.T) {
				r.ev(fmt.Sprintf("(UAct %d)", i))
				n0 := countDraws(r)
				done := false
				defer func() {
					switch {
					case done:
						r.ev(fmt.Sprintf("(UActEnd %d 0)", i))
					case countDraws(r) == n0:
						r.ev(fmt.Sprintf("(UActEnd %d 1)", i))
					default:
						r.ev(fmt.Sprintf("(UActEnd %d 2)", i))
					}
				}()
				v := p.exec(t, a, append(env[:len(env):len(env)], state), r)
				done = true
				state = v
			}
		}
		if s.A != nil {
			actions[""] = func(t *rapid.T) {
				r.ev("UChk")
				p.exec(t, s.A, append(env[:len(env):len(env)], state), r)
			}
		}
		r.Rep = append(r.Rep, fmt.Sprintf("B %d %v", len(s.Acts), s.A != nil))
		func() {
			defer func() { r.Rep = append(r.Rep, "E") }()
			tramps[s.Id](func() { t.Repeat(actions) })
		}()
		return p.exec(t, s.Next, append(env[:len(env):len(env)], state), r)
	}
	panic("exec " + s.Op)
}

// actionName: names whose byte-wise sorted order is the index order (what Repeat documents), but which contain
// pairs that differ only in letter case ("A".."a"): an ordering that is not total on such names shows up as
// non-determinism
func actionName(i, n int) string {
	up := (n + 1) / 2
	if i < up {
		return fmt.Sprintf("ACT%c", 'A'+rune(i))
	}
	return fmt.Sprintf("act%c", 'a'+rune(i-up))
}

// recurse calls f below d directly recursive frames: the failure site then depends on d
//
//go:noinline
func recurse(d int, f func()) {
	if d <= 0 {
		f()
		return
	}
	recurse(d-1, f)
}

// countDraws: Draw calls made so far on the current T (Custom bodies run on an inner T)
func countDraws(r *Run) int { return r.draws[len(r.draws)-1] }

var sink string

// Prop returns the property function for this program; events go to *runp
func (p *Program) Prop(runp **Run) func(*rapid.T) {
	return func(t *rapid.T) {
		r := *runp
		curRun = r
		p.exec(t, p.Root, nil, r)
	}
}
