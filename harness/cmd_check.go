package main

// Check-level harness: a recording TB, one-shot runners for Check / doCheck / accept, and the
// commands that produce engine-level correspondence cases and end-to-end oracles.

import (
	"encoding/json"
	"flag"
	"fmt"
	"math/big"
	"os"
	"path/filepath"
	"regexp"
	"runtime/debug"
	"sort"
	"strconv"
	"strings"
	"time"

	"pgregory.net/rapid"
)

func init() {
	register("check-cases", cmdCheckCases)
	register("check-oracle", cmdCheckOracle)
}

// ---- recording TB ----
type tbStop struct{}

type recTB struct {
	name     string
	Logs     []string
	Errors   []string
	failed   bool
	FailNow_ bool
	Skipped  bool
}

func (t *recTB) Helper()      {}
func (t *recTB) Name() string { return t.name }
func (t *recTB) Logf(format string, args ...any) {
	t.Logs = append(t.Logs, fmt.Sprintf(format, args...))
}
func (t *recTB) Log(args ...any) { t.Logs = append(t.Logs, fmt.Sprint(args...)) }
func (t *recTB) Skipf(format string, args ...any) {
	t.Logf(format, args...)
	t.SkipNow()
}
func (t *recTB) Skip(args ...any) { t.Log(args...); t.SkipNow() }
func (t *recTB) SkipNow()         { t.Skipped = true; panic(tbStop{}) }
func (t *recTB) Errorf(format string, args ...any) {
	t.Errors = append(t.Errors, fmt.Sprintf(format, args...))
	t.failed = true
}
func (t *recTB) Error(args ...any) { t.Errors = append(t.Errors, fmt.Sprint(args...)); t.failed = true }
func (t *recTB) Fatalf(format string, args ...any) {
	t.Errorf(format, args...)
	t.FailNow()
}
func (t *recTB) Fatal(args ...any) { t.Error(args...); t.FailNow() }
func (t *recTB) FailNow()          { t.failed = true; t.FailNow_ = true; panic(tbStop{}) }
func (t *recTB) Fail()             { t.failed = true }
func (t *recTB) Failed() bool      { return t.failed }

// runTB runs f, absorbing the tbStop sentinel (as testing.T stops the goroutine); any other panic escapes
func runTB(f func()) (escaped any) {
	defer func() {
		if r := recover(); r != nil {
			if _, ok := r.(tbStop); !ok {
				escaped = r
				if os.Getenv("VERIF_STACK") != "" {
					fmt.Fprintf(os.Stderr, "escaped panic: %v\n%s\n", r, debug.Stack())
				}
			}
		}
	}()
	f()
	return nil
}

// PropMulti: every invocation of the property gets its own Run; all are collected
func (p *Program) PropMulti(runs *[]*Run) func(*rapid.T) {
	return func(t *rapid.T) {
		r := NewRun()
		*runs = append(*runs, r)
		curRun = r
		p.exec(t, p.Root, nil, r)
	}
}

func setFlags(checks int, seed uint64, shrink time.Duration, nofailfile bool) rapid.VerifFlags {
	old := rapid.VerifGetFlags()
	f := old
	f.Checks, f.Seed, f.ShrinkTime, f.NoFailFile, f.FailFile = checks, seed, shrink, nofailfile, ""
	rapid.VerifSetFlags(f)
	return old
}

var (
	reFailedAfter = regexp.MustCompile(`^\[rapid\] failed after (\d+) tests: (.*)`)
	rePanicAfter  = regexp.MustCompile(`^\[rapid\] panic after (\d+) tests: (.*)`)
	reOnlyGen     = regexp.MustCompile(`^\[rapid\] only generated (\d+) valid tests from (\d+) total`)
	reOK          = regexp.MustCompile(`^\[rapid\] OK, passed (\d+) tests`)
	reSeedShown   = regexp.MustCompile(`-rapid\.seed=(\d+)`)
	reDrawLine    = regexp.MustCompile(`^\[rapid\] draw (.*?): (.*)$`)
)

type checkObs struct {
	Verdict   string // ok / onlygen / failed / panic / flaky / none
	Valid     int
	Total     int
	Msg       string
	SeedShown uint64
	Failed    bool
	FailNow   bool
	Escaped   string
	Runs      []*Run
	TB        *recTB
}

func classifyTB(tb *recTB) (string, int, int, string, uint64) {
	var seed uint64
	for _, e := range tb.Errors {
		first := strings.SplitN(e, "\n", 2)[0]
		if m := reSeedShown.FindStringSubmatch(e); m != nil {
			seed, _ = strconv.ParseUint(m[1], 10, 64)
		}
		if m := reFailedAfter.FindStringSubmatch(first); m != nil {
			n, _ := strconv.Atoi(m[1])
			return "failed", n, 0, m[2], seed
		}
		if m := rePanicAfter.FindStringSubmatch(first); m != nil {
			n, _ := strconv.Atoi(m[1])
			return "panic", n, 0, m[2], seed
		}
		if strings.HasPrefix(first, "[rapid] flaky test") {
			return "flaky", 0, 0, "", seed
		}
		if m := reOnlyGen.FindStringSubmatch(first); m != nil {
			a, _ := strconv.Atoi(m[1])
			b, _ := strconv.Atoi(m[2])
			return "onlygen", a, b, "", 0
		}
	}
	for _, l := range tb.Logs {
		if m := reOK.FindStringSubmatch(l); m != nil {
			n, _ := strconv.Atoi(m[1])
			return "ok", n, 0, "", 0
		}
	}
	return "none", 0, 0, "", 0
}

// RunCheck runs rapid.Check through the public API with a recording TB
func RunCheck(p *Program, name string, checks int, seed uint64, shrink time.Duration) checkObs {
	old := setFlags(checks, seed, shrink, true)
	defer rapid.VerifSetFlags(old)
	tb := &recTB{name: name}
	var runs []*Run
	prop := p.PropMulti(&runs)
	esc := runTB(func() { rapid.Check(tb, prop) })
	o := checkObs{Runs: runs, TB: tb, Failed: tb.failed, FailNow: tb.FailNow_}
	if esc != nil {
		o.Escaped = fmt.Sprint(esc)
	}
	o.Verdict, o.Valid, o.Total, o.Msg, o.SeedShown = classifyTB(tb)
	return o
}

// skipHeavyProgram: draw x from IntRange(0, m-1); skip when x < t, pass otherwise. (m, t) is chosen so that the real
// (biased) generator skips between 87.6% and 91% of the time, measured on 500 examples
func skipHeavyProgram(r *Rng) *Program {
	m, t := int64(100), int64(90)
	for try := 0; try < 400; try++ {
		mc := int64(pick(r, 8, 16, 50, 100, 1000, 100000))
		tc := 1 + int64(r.intn(int(mc-1)))
		ge := rapid.Int64Range(0, mc-1)
		sk := 0
		for e := 0; e < 500; e++ {
			if ge.Example(e) < tc {
				sk++
			}
		}
		if sk >= 438 && sk <= 455 {
			m, t = mc, tc
			break
		}
	}
	g := &Gen{Op: "int", Kind: "Int64", Variant: "range", IMin: 0, IMax: m - 1}
	root := &Stmt{Op: "draw", G: g, Next: &Stmt{Op: "if",
		C: &Cond{Op: "lt", A: &VExp{Op: "var", I: 0}, B: &VExp{Op: "const", V: big.NewInt(t)}},
		A: &Stmt{Op: "skip", Variant: "skip", Msg: 1}, B: &Stmt{Op: "ret", E: &VExp{Op: "const", V: nil}}}}
	return NewProgram(root)
}

func runEndedHow(r *Run) string { return strings.Join(r.Events, ";") }

// ---- check-cases: correspondence for doCheck (shrinktime = 0) and for accept sequences ----
func eventsCoq(r *Run) string { return "[" + strings.Join(r.Events, "; ") + "]" }

func cmdCheckCases(args []string) {
	fs := flag.NewFlagSet("check-cases", flag.ExitOnError)
	n := fs.Int("n", 60, "number of doCheck cases")
	na := fs.Int("na", 40, "number of accept-sequence cases")
	nf := fs.Int("nf", 0, "number of doCheck cases run in a directory with fail files")
	seed := fs.Uint64("seed", 1, "generator seed")
	prof := fs.String("profile", "pure", "program profile")
	out := fs.String("out", "", "output .v file")
	name := fs.String("name", "chk", "Coq definition name")
	_ = fs.Parse(args)
	calibrate()
	pf := profileByName(*prof)
	stats := map[string]int{}
	var b strings.Builder
	fmt.Fprintf(&b, "(* GENERATED by /verif/harness check-cases -seed %d -profile %s *)\n", *seed, *prof)
	b.WriteString("Require Import Rapid.Model.Base Rapid.Model.Syntax Rapid.Model.Pexp Rapid.Model.Groups Rapid.Model.Corr Rapid.Model.Shrink Rapid.Model.CorrEngine Rapid.Generated.GeomTable.\n")
	b.WriteString("Open Scope N_scope.\n")
	fmt.Fprintf(&b, "Definition %s_dc : list dc_case := [\n", *name)
	first := true
	var samples []string
	for i := 0; i < *n; i++ {
		r := &Rng{s: *seed*9000011 + uint64(i)}
		p := GenProgram(r, pf)
		checks := pick(r, 1, 2, 3, 5, 10, 20)
		if r.chance(15) {
			// a property that skips about nine test cases in ten: the give-up rule (10*N skipped cases) and its
			// neighbourhood - more than 9*N skipped cases and still N valid ones - are reached
			p = skipHeavyProgram(r)
			checks = pick(r, 3, 5, 10, 20, 20)
			stats["dc_skip_heavy"]++
		}
		base := r.next()
		if r.chance(15) {
			base = uint64(r.intn(5)) // includes 0: "random seed" - not reproducible, replaced below
		}
		if base == 0 {
			base = 1
		}
		old := setFlags(checks, base, 0, true)
		tb := &recTB{name: "T"}
		var runs []*Run
		var res rapid.VerifCheckResult
		esc := runTB(func() { res = rapid.VerifDoCheck(tb, checks, base, "", false, p.PropMulti(&runs)) })
		rapid.VerifSetFlags(old)
		if esc != nil {
			stats["escaped_panic"]++
			continue
		}
		kind := "pass"
		if res.Err1.Kind != "" || res.Err2.Kind != "" {
			kind = "fail"
		}
		stats["dc_"+kind]++
		if res.Invalid > 9*checks && res.Invalid < 10*checks && res.Valid == checks {
			stats["dc_passed_with_more_than_9N_skipped"]++
		}
		if res.Invalid >= 10*checks {
			stats["dc_gave_up_after_10N_skipped"]++
		}
		invs := make([]string, len(runs))
		for j, rr := range runs {
			invs[j] = eventsCoq(rr)
		}
		if !first {
			b.WriteString(";\n")
		}
		first = false
		fmt.Fprintf(&b, "  mkDcCase %d %s %d %d %d %d %d %s %s %s [%s]", i, p.Root.coq(), checks, base, res.Valid, res.Invalid, res.Seed,
			wordsCoq(res.Buf), oresCoq(res.Err1), oresCoq(res.Err2), strings.Join(invs, "; "))
		if len(samples) < 2 {
			samples = append(samples, fmt.Sprintf("doCheck checks=%d seed=%d %s -> valid=%d invalid=%d err=%s", checks, base, p.Root.coq(), res.Valid, res.Invalid, oresCoq(res.Err2)))
		}
	}
	b.WriteString("].\n")
	fmt.Fprintf(&b, "Definition %s_dc_M := Eval vm_compute in dc_mismatches geom_tab %s_dc.\nPrint %s_dc_M.\n", *name, *name, *name)

	// accept sequences
	var accFails []map[string]any
	fmt.Fprintf(&b, "Definition %s_acc : list acc_case := [\n", *name)
	first = true
	made := 0
	for i := 0; made < *na && i < *na*20; i++ {
		r := &Rng{s: *seed*9100019 + uint64(i)}
		pf2 := pf
		pf2.Fail += 3
		p := GenProgram(r, pf2)
		// find a failing seed; the property closure must be the one the shrinker runs (tracebacks name it)
		var s uint64
		var e rapid.VerifError
		var rec rapid.VerifRecording
		var runs []*Run
		prop := p.PropMulti(&runs)
		found := false
		for k := 0; k < 30 && !found; k++ {
			s = r.next()
			e, rec = rapid.VerifRunSeed(nil, s, false, prop)
			found = e.Kind == "stop" || e.Kind == "panic"
		}
		if !found {
			stats["acc_no_failing_seed"]++
			continue
		}
		made++
		sh := rapid.VerifNewShrinker(&recTB{name: "T"}, rec, e, prop)
		cur, _, _ := sh.State()
		var steps []string
		ncand := 4 + r.intn(10)
		for c := 0; c < ncand; c++ {
			cand := mutateCandidate(r, cur.Data, cur.Groups)
			acc, aborted := sh.Accept(cand)
			st, err, shrinks := sh.State()
			res := "AccNo"
			if acc {
				res = "AccYes"
				stats["acc_accepted"]++
				// C05 on the implementation: an accepted candidate fails at the original site and is strictly smaller
				c0, id0 := canonSite(e)
				c1, id1 := canonSite(err)
				if err.Kind == "" || err.Kind == "invalid" || c0 != c1 || id0 != id1 {
					accFails = append(accFails, map[string]any{"property": "C05", "what": "minimization moved to a test case that fails at a different site",
						"program": p.Root.coq(), "seed": s, "candidate": cand, "original": oresCoq(e), "accepted": oresCoq(err), "index": i, "cmd": "/verif/build/harness " + strings.Join(os.Args[1:], " ")})
				}
				if rapid.VerifCompareData(st.Data, cur.Data) >= 0 {
					accFails = append(accFails, map[string]any{"property": "C05", "what": "an accepted minimization step is not strictly smaller",
						"program": p.Root.coq(), "seed": s, "candidate": cand, "before": cur.Data, "after": st.Data, "index": i, "cmd": "/verif/build/harness " + strings.Join(os.Args[1:], " ")})
				}
			} else {
				stats["acc_rejected"]++
			}
			if aborted {
				res = "AccAbortObs"
				stats["acc_aborted"]++
			}
			steps = append(steps, fmt.Sprintf("(%s, %s, %s, %s, %d%%nat)", wordsCoq(cand), res, wordsCoq(st.Data), oresCoq(err), shrinks))
			cur = st
		}
		if !first {
			b.WriteString(";\n")
		}
		first = false
		fmt.Fprintf(&b, "  mkAccCase %d %s %d [%s]", i, p.Root.coq(), s, strings.Join(steps, "; "))
		if len(samples) < 4 {
			samples = append(samples, fmt.Sprintf("accept x%d on %s @ seed %d", ncand, p.Root.coq(), s))
		}
	}
	b.WriteString("].\n")
	fmt.Fprintf(&b, "Definition %s_acc_M := Eval vm_compute in acc_mismatches geom_tab %s_acc.\nPrint %s_acc_M.\n", *name, *name, *name)
	// doCheck in a directory with fail files: garbage, other versions, recordings of passing / invalid /
	// failing runs of the same property (whole, pruned, truncated), random words
	if *nf > 0 {
		fmt.Fprintf(&b, "Definition %s_dcf : list dcf_case := [\n", *name)
		first = true
		cwd, _ := os.Getwd()
		for i := 0; i < *nf; i++ {
			r := &Rng{s: *seed*9200023 + uint64(i)}
			pf2 := pf
			if r.chance(60) {
				pf2.Fail += 3
			}
			p := GenProgram(r, pf2)
			checks := pick(r, 1, 2, 3, 5)
			base := r.next() | 1
			dir, err := os.MkdirTemp("", "verif-dcf-")
			if err != nil {
				die("%v", err)
			}
			ffdir := filepath.Join(dir, "testdata", "rapid", "T")
			_ = os.MkdirAll(ffdir, 0o755)
			var scratch []*Run
			pre := p.PropMulti(&scratch)
			nfiles := r.intn(5)
			var coqFiles []string
			for k := 0; k < nfiles; k++ {
				fn := filepath.Join(ffdir, fmt.Sprintf("T-%02d.fail", k))
				var buf []uint64
				switch r.intn(6) {
				case 0:
					for j := r.intn(6); j > 0; j-- {
						buf = append(buf, word(r))
					}
				default:
					_, rec := rapid.VerifRunSeed(nil, r.next(), false, pre)
					if r.chance(50) {
						rec, _ = safePrune(rec)
					}
					buf = append(buf, rec.Data...)
					if r.chance(15) && len(buf) > 0 {
						buf = buf[:r.intn(len(buf))]
					}
				}
				switch c := r.intn(10); {
				case c < 2:
					junk := pick(r, "", "garbage", "# only a comment\n", rapid.VerifRapidVersion()+"#\n", rapid.VerifRapidVersion()+"#12\n0xzz\n", "v1#2#3\n")
					_ = os.WriteFile(fn, []byte(junk), 0o644)
					coqFiles = append(coqFiles, "LErr")
					stats["dcf_file_unparsable"]++
				case c < 4:
					_ = rapid.VerifSaveFailFile(fn, "v0.0.1", []byte("old output\n"), r.next(), buf)
					coqFiles = append(coqFiles, "LFile false "+wordsCoq(buf))
					stats["dcf_file_other_version"]++
				default:
					_ = rapid.VerifSaveFailFile(fn, rapid.VerifRapidVersion(), []byte("output\nlines\n"), r.next(), buf)
					coqFiles = append(coqFiles, "LFile true "+wordsCoq(buf))
					stats["dcf_file_current_version"]++
				}
			}
			old := setFlags(checks, base, 0, true)
			tb := &recTB{name: "T"}
			var runs []*Run
			var res rapid.VerifCheckResult
			_ = os.Chdir(dir)
			esc := runTB(func() { res = rapid.VerifDoCheck(tb, checks, base, "", true, p.PropMulti(&runs)) })
			_ = os.Chdir(cwd)
			rapid.VerifSetFlags(old)
			_ = os.RemoveAll(dir)
			if esc != nil {
				stats["escaped_panic"]++
				continue
			}
			from := "None"
			if res.FailFile != "" {
				var idx int
				if _, err := fmt.Sscanf(filepath.Base(res.FailFile), "T-%d.fail", &idx); err == nil {
					from = fmt.Sprintf("(Some %d%%nat)", idx)
				}
				stats["dcf_reproduced_from_file"]++
			} else if res.Err1.Kind != "" || res.Err2.Kind != "" {
				stats["dcf_failed_in_random_phase"]++
			} else {
				stats["dcf_pass"]++
			}
			stats["dcf_cases"]++
			invs := make([]string, len(runs))
			for j, rr := range runs {
				invs[j] = eventsCoq(rr)
			}
			if !first {
				b.WriteString(";\n")
			}
			first = false
			fmt.Fprintf(&b, "  mkDcfCase %d %s %d %d [%s] %d %d %d %s %s %s [%s] %s", i, p.Root.coq(), checks, base, strings.Join(coqFiles, "; "),
				res.Valid, res.Invalid, res.Seed, wordsCoq(res.Buf), oresCoq(res.Err1), oresCoq(res.Err2), strings.Join(invs, "; "), from)
		}
		b.WriteString("].\n")
		fmt.Fprintf(&b, "Definition %s_dcf_M := Eval vm_compute in dcf_mismatches geom_tab %s_dcf.\nPrint %s_dcf_M.\n", *name, *name, *name)
	}
	if err := os.WriteFile(*out, []byte(b.String()), 0644); err != nil {
		die("%v", err)
	}
	js, _ := json.Marshal(map[string]any{"stats": stats, "samples": samples, "failures": accFails})
	fmt.Println(string(js))
}

// mutateCandidate: candidates of the kinds the passes produce, plus non-smaller, equal and repeated ones
func mutateCandidate(r *Rng, data []uint64, groups []rapid.VerifGroup) []uint64 {
	c := append([]uint64(nil), data...)
	if len(c) == 0 {
		return c
	}
	switch r.intn(9) {
	case 0: // delete a standalone group
		var sa []rapid.VerifGroup
		for _, g := range groups {
			if g.Standalone && g.End > g.Begin {
				sa = append(sa, g)
			}
		}
		if len(sa) > 0 {
			g := sa[r.intn(len(sa))]
			return append(c[:g.Begin], c[g.End:]...)
		}
	case 1: // lower a word
		j := r.intn(len(c))
		if c[j] > 0 {
			c[j] = uint64(r.intn(5)) % c[j]
		}
		return c
	case 2:
		j := r.intn(len(c))
		c[j] >>= 1
		return c
	case 3: // zero
		c[r.intn(len(c))] = 0
		return c
	case 4: // equal (not smaller)
		return c
	case 5: // larger
		c[r.intn(len(c))]++
		return c
	case 6: // delete one word
		j := r.intn(len(c))
		return append(c[:j], c[j+1:]...)
	case 7: // truncate
		return c[:r.intn(len(c))]
	}
	j := r.intn(len(c))
	if c[j] > 0 {
		c[j]--
	}
	return c
}

// ---- check-oracle: end-to-end oracles on the implementation alone ----
type oracleFailure struct {
	Property string `json:"property"`
	What     string `json:"what"`
	Program  string `json:"program"`
	Checks   int    `json:"checks"`
	Seed     uint64 `json:"seed"`
	Shrink   string `json:"shrinktime"`
	Detail   string `json:"detail"`
	GenSeed  uint64 `json:"gen_seed"`
	Index    int    `json:"index"`
	Profile  string `json:"profile"`
}

// continuesAfterSkip: index of the first draw / action / invariant / failure event after a Skip called by the
// test case itself at its top level (not inside a Custom body or an action, where a skip only rejects an attempt,
// and not inside a cleanup function, whose skip request is honoured when the test case ends), or -1.
// events = Run.Brk (with the end of every cleanup function marked).
func continuesAfterSkip(events []string) int {
	depth, inAct, inCleanupFn, skipped := 0, 0, 0, false
	for k, e := range events {
		switch {
		case e == "UCustomBegin":
			depth++
		case strings.HasPrefix(e, "(UCustomEnd"):
			depth--
		case strings.HasPrefix(e, "(URunEnd"):
			inCleanupFn--
		case strings.HasPrefix(e, "(URun "):
			inCleanupFn++
		case inCleanupFn > 0:
			// cleanup functions legitimately run (and may do anything) after a skip
		case strings.HasPrefix(e, "(UAct "):
			if skipped {
				return k
			}
			inAct++
		case strings.HasPrefix(e, "(UActEnd"):
			inAct--
		case strings.HasPrefix(e, "(USkip") && depth == 0 && inAct == 0:
			skipped = true
		case skipped && (strings.HasPrefix(e, "(UDraw") || e == "UChk" || strings.HasPrefix(e, "(USignal")):
			return k
		}
	}
	return -1
}

// fatalSite: kind and site id of the last fatal / panic signal of an invocation ("" when it has none)
func fatalSite(events []string) (string, int) {
	for k := len(events) - 1; k >= 0; k-- {
		e := events[k]
		if strings.HasPrefix(e, "(USignal KFatal") || strings.HasPrefix(e, "(USignal KPanic") {
			f := strings.Fields(strings.TrimSuffix(e, ")"))
			id, _ := strconv.Atoi(f[len(f)-1])
			return f[1], id
		}
	}
	return "", 0
}

func hasSignal(r *Run) bool {
	for _, e := range r.Events {
		if strings.HasPrefix(e, "(USignal") {
			return true
		}
	}
	return false
}

func cmdCheckOracle(args []string) {
	fs := flag.NewFlagSet("check-oracle", flag.ExitOnError)
	n := fs.Int("n", 100, "programs")
	seed := fs.Uint64("seed", 1, "generator seed")
	prof := fs.String("profile", "all", "program profile")
	only := fs.Int("only", -1, "run just this index, verbosely")
	shrinkMs := fs.Int("shrinkms", 300, "shrink time for the minimizing run (ms)")
	shrinkUs := fs.Int("shrinkus", 0, "shrink time in microseconds (overrides -shrinkms when > 0)")
	_ = fs.Parse(args)
	calibrate()
	pf := profileByName(*prof)
	stats := map[string]int{}
	var fails []oracleFailure
	add := func(prop, what string, p *Program, checks int, sd uint64, sh time.Duration, detail string, idx int) {
		fails = append(fails, oracleFailure{prop, what, p.Root.coq(), checks, sd, sh.String(), detail, *seed, idx, *prof})
	}
	// one very large falsifying test case (several hundred thousand recorded blocks): found, reproduced, reported
	if *only < 0 || *only == 900000 {
		gbig := rapid.SliceOfN(rapid.Uint16(), 50000, 60000)
		lastLen := -1
		prop := func(t *rapid.T) {
			s := gbig.Draw(t, "s")
			lastLen = len(s)
			if len(s) >= 50000 {
				t.Fatalf("big slice")
			}
		}
		old := setFlags(3, *seed|1, 200*time.Millisecond, true)
		tb := &recTB{name: "T"}
		esc := runTB(func() { rapid.Check(tb, prop) })
		rapid.VerifSetFlags(old)
		verdict, _, _, msg, _ := classifyTB(tb)
		stats["big_case_runs"]++
		if esc != nil || verdict != "failed" || !strings.Contains(msg, "big slice") || lastLen < 50000 {
			what := "a deterministic property was called flaky"
			if verdict != "flaky" {
				what = "a falsifying test case of several hundred thousand blocks is not reported as the failure it is"
			}
			fails = append(fails, oracleFailure{"C01", what, "SliceOfN(Uint16(),50000,60000) then Fatalf", 3, *seed | 1, "200ms",
				fmt.Sprintf("verdict=%s msg=%q escaped=%v final len=%d errors=%q", verdict, msg, esc, lastLen, tb.Errors), *seed, 900000, *prof})
		}
	}
	// "non-fatal failure, then skip": the failing case is an Errorf followed by a Skip whose site is also reachable
	// without the failure on smaller inputs; the test case Check presents must still be one that signalled a failure
	if *only < 0 || *only == 900001 {
		gsl := rapid.SliceOfN(rapid.IntRange(0, 100), 0, 30)
		lastSignalled, lastLen := false, -1
		prop := func(t *rapid.T) {
			lastSignalled = false
			s := gsl.Draw(t, "s")
			lastLen = len(s)
			for _, x := range s {
				if x > 90 {
					lastSignalled = true
					t.Errorf("big element %d", x)
				}
			}
			if len(s) > 5 {
				t.Skip("too long")
			}
		}
		for k := uint64(0); k < 3; k++ {
			old := setFlags(200, (*seed+k)|1, 400*time.Millisecond, true)
			tb := &recTB{name: "T"}
			esc := runTB(func() { rapid.Check(tb, prop) })
			rapid.VerifSetFlags(old)
			verdict, _, _, msg, _ := classifyTB(tb)
			stats["errorf_then_skip_runs"]++
			if verdict == "ok" || verdict == "onlygen" || verdict == "none" {
				continue // no failing case found with this seed
			}
			if esc != nil || !lastSignalled || strings.Contains(msg, "invalid data") {
				fails = append(fails, oracleFailure{"C11", "the test case presented as falsifying is one in which nothing failed", "SliceOfN(IntRange(0,100),0,30): Errorf for elements > 90, then Skip when longer than 5", 200, (*seed + k) | 1, "400ms",
					fmt.Sprintf("verdict=%s msg=%q final replay: len=%d signalled=%v escaped=%v", verdict, msg, lastLen, lastSignalled, esc), *seed, 900001, *prof})
				break
			}
		}
	}
	// skipping by itself never fails a test: a property whose only event is a Skip - in the body or in a cleanup
	// function, on some inputs - passes (or is reported as "only generated"), and is never presented as falsified
	if *only < 0 || *only == 900002 {
		for k, where := range []string{"body", "cleanup", "custom-cleanup"} {
			g := rapid.IntRange(0, 9)
			gc := rapid.Custom(func(t *rapid.T) int {
				v := rapid.IntRange(0, 9).Draw(t, "c")
				t.Cleanup(func() {
					if v < 3 {
						t.Skip("custom cleanup skips")
					}
				})
				return v
			})
			prop := func(t *rapid.T) {
				switch where {
				case "body":
					if g.Draw(t, "v") < 3 {
						t.Skip("body skips")
					}
				case "cleanup":
					v := g.Draw(t, "v")
					t.Cleanup(func() {
						if v < 3 {
							t.Skip("cleanup skips")
						}
					})
				default:
					_ = gc.Draw(t, "c")
				}
			}
			old := setFlags(50, (*seed+uint64(k))|1, 50*time.Millisecond, true)
			tb := &recTB{name: "T"}
			esc := runTB(func() { rapid.Check(tb, prop) })
			rapid.VerifSetFlags(old)
			verdict, valid, _, msg, _ := classifyTB(tb)
			stats["skip_only_runs"]++
			if esc != nil || verdict != "ok" || valid != 50 {
				what := "a test case that merely skipped is presented as falsifying the property"
				fails = append(fails, oracleFailure{"C11", what, "property that only skips (" + where + ") on a third of its inputs", 50, (*seed + uint64(k)) | 1, "50ms",
					fmt.Sprintf("verdict=%s valid=%d msg=%q escaped=%v errors=%q", verdict, valid, msg, esc, tb.Errors), *seed, 900002, *prof})
				fails = append(fails, oracleFailure{"C09", "a property that only skips on some inputs does not pass with N valid cases", "property that only skips (" + where + ") on a third of its inputs", 50, (*seed + uint64(k)) | 1, "50ms",
					fmt.Sprintf("verdict=%s valid=%d msg=%q", verdict, valid, msg), *seed, 900002, *prof})
			}
		}
	}
	// a property may do what it likes with the values it drew: sorting a drawn permutation in place must not change
	// what the generator produces later (reproduction would then differ: "flaky")
	if *only < 0 || *only == 900004 {
		src := []int{5, 3, 9, 1, 7}
		orig := append([]int(nil), src...)
		gp := rapid.Permutation(src)
		gx := rapid.IntRange(0, 100)
		prop := func(t *rapid.T) {
			p := gp.Draw(t, "p")
			first := p[0]
			sort.Ints(p)
			if x := gx.Draw(t, "x"); first == 5 && x > 20 {
				t.Fatalf("boom %d", x)
			}
		}
		for k := uint64(0); k < 3; k++ {
			old := setFlags(100, (*seed+k)|1, 20*time.Millisecond, true)
			tb := &recTB{name: "T"}
			esc := runTB(func() { rapid.Check(tb, prop) })
			rapid.VerifSetFlags(old)
			verdict, _, _, msg, _ := classifyTB(tb)
			stats["inplace_sort_runs"]++
			if esc != nil || verdict == "flaky" || fmt.Sprint(src) != fmt.Sprint(orig) {
				fails = append(fails, oracleFailure{"C01", "a deterministic property was called flaky", "Permutation([5 3 9 1 7]) sorted in place by the property, then IntRange(0,100)", 100, (*seed + k) | 1, "20ms",
					fmt.Sprintf("verdict=%s msg=%q escaped=%v generator's input slice now %v", verdict, msg, esc, src), *seed, 900004, *prof})
				break
			}
		}
	}
	// failures raised by different cleanup functions are different failure sites: minimization must not move from
	// the one that was found to another one
	if *only < 0 || *only == 900005 {
		gx := rapid.IntRange(0, 100)
		first, last := "", ""
		prop := func(t *rapid.T) {
			x := gx.Draw(t, "x")
			site := ""
			switch {
			case x > 50:
				site = "A"
				t.Cleanup(func() { cleanupSiteA() })
			case x > 10:
				site = "B"
				t.Cleanup(func() { cleanupSiteB() })
			}
			if site != "" && first == "" {
				first = site
			}
			last = site
		}
		for k := uint64(0); k < 4; k++ {
			first, last = "", ""
			old := setFlags(100, (*seed+k)|1, 200*time.Millisecond, true)
			tb := &recTB{name: "T"}
			esc := runTB(func() { rapid.Check(tb, prop) })
			rapid.VerifSetFlags(old)
			verdict, _, _, msg, _ := classifyTB(tb)
			stats["cleanup_site_runs"]++
			if esc == nil && (verdict == "failed" || verdict == "panic") && first != last {
				fails = append(fails, oracleFailure{"C05", "the minimized failure is raised at another site than the failure found", "IntRange(0,100): x > 50 registers a cleanup that panics at site A, 10 < x <= 50 one that panics at site B", 100, (*seed + k) | 1, "200ms",
					fmt.Sprintf("found at cleanup %s, reported at cleanup %s (verdict %s, msg %q)", first, last, verdict, msg), *seed, 900005, *prof})
				break
			}
		}
	}
	// minimization never moves from a failure to a test case that merely skipped: here the failure is a non-fatal one
	// signalled by a cleanup function, and smaller inputs make a cleanup function skip
	if *only < 0 || *only == 900006 {
		gx := rapid.IntRange(0, 1000)
		lastFailed := false
		prop := func(t *rapid.T) {
			x := gx.Draw(t, "x")
			lastFailed = false
			t.Cleanup(func() {
				switch {
				case x > 500:
					lastFailed = true
					t.Errorf("x is too big: %d", x)
				case x > 100:
					t.Skip("x is too small to be interesting")
				}
			})
		}
		for k := uint64(0); k < 3; k++ {
			old := setFlags(100, (*seed+k)|1, 200*time.Millisecond, true)
			tb := &recTB{name: "T"}
			esc := runTB(func() { rapid.Check(tb, prop) })
			rapid.VerifSetFlags(old)
			verdict, _, _, msg, _ := classifyTB(tb)
			stats["failure_vs_skip_runs"]++
			if verdict == "ok" || verdict == "onlygen" || verdict == "none" {
				continue
			}
			if esc != nil || !lastFailed || strings.Contains(msg, "invalid data") {
				d := fmt.Sprintf("verdict=%s msg=%q final replay failed=%v escaped=%v", verdict, msg, lastFailed, esc)
				fails = append(fails, oracleFailure{"C05", "minimization moved from a failure to a test case that merely skipped", "IntRange(0,1000): cleanup Errorf when x > 500, cleanup Skip when 100 < x <= 500", 100, (*seed + k) | 1, "200ms", d, *seed, 900006, *prof})
				fails = append(fails, oracleFailure{"C11", "the test case presented as falsifying is one in which nothing failed", "IntRange(0,1000): cleanup Errorf when x > 500, cleanup Skip when 100 < x <= 500", 100, (*seed + k) | 1, "200ms", d, *seed, 900006, *prof})
				break
			}
		}
	}
	// two failure sites that share their innermost frames: the same helper chain, depth levels deep, ends in Fatalf and
	// is entered from two places of the property. The failure site is the whole call stack inside the property, so
	// minimization must not move from the one found (large inputs only) to the other (reachable from smaller inputs)
	if *only < 0 || *only == 900007 {
		gx := rapid.IntRange(0, 1000000)
		for _, depth := range []int{2, 9, 13, 20, 26, 40, 90, 300} {
			first, last := "", ""
			prop := func(t *rapid.T) {
				last = ""
				x := gx.Draw(t, "x")
				site := ""
				switch {
				case x >= 500000:
					site = "A"
				case x >= 1000:
					site = "B"
				default:
					return
				}
				last = site
				if first == "" {
					first = site
				}
				if site == "A" {
					deepSiteA(t, depth, x)
				} else {
					deepSiteB(t, depth, x)
				}
			}
			moved := false
			for k := uint64(0); k < 12 && !moved; k++ {
				first, last = "", ""
				old := setFlags(100, (*seed+k*7919)|1, 300*time.Millisecond, true)
				tb := &recTB{name: "T"}
				esc := runTB(func() { rapid.Check(tb, prop) })
				rapid.VerifSetFlags(old)
				verdict, _, _, msg, _ := classifyTB(tb)
				stats["deep_site_runs"]++
				if first == "A" {
					stats["deep_site_runs_found_A"]++
				}
				if esc == nil && (verdict == "failed" || verdict == "panic") && first == "A" && last != first {
					fails = append(fails, oracleFailure{"C05", "the minimized failure is raised at another site than the failure found",
						fmt.Sprintf("IntRange(0,1000000): x >= 500000 fails through a %d-deep helper chain entered at site A, 1000 <= x < 500000 through the same chain entered at site B", depth), 100, (*seed + k*7919) | 1, "300ms",
						fmt.Sprintf("found at site %s, reported at site %q (verdict %s, msg %q)", first, last, verdict, msg), *seed, 900007, *prof})
					moved = true
				}
			}
		}
	}
	// two failure sites at different lines of one and the same function (the property itself, a helper, a closure): the
	// line is part of the site
	if *only < 0 || *only == 900009 {
		gx := rapid.IntRange(0, 1000000)
		for variant := 0; variant < 3; variant++ {
			first, last := "", ""
			note := func(site string) {
				last = site
				if first == "" {
					first = site
				}
			}
			prop := func(t *rapid.T) {
				last = ""
				x := gx.Draw(t, "x")
				switch variant {
				case 0: // both sites in the property function
					if x >= 500000 {
						note("A")
						t.Fatalf("invariant broken")
					}
					if x >= 1000 {
						note("B")
						t.Fatalf("invariant broken")
					}
				case 1: // both in one helper
					twoSitesHelper(t, x, note)
				default: // panics instead of Fatalf
					if x >= 500000 {
						note("A")
						panic("invariant broken")
					}
					if x >= 1000 {
						note("B")
						panic("invariant broken")
					}
				}
			}
			for k := uint64(0); k < 12; k++ {
				first, last = "", ""
				old := setFlags(100, (*seed+k*104729)|1, 300*time.Millisecond, true)
				tb := &recTB{name: "T"}
				esc := runTB(func() { rapid.Check(tb, prop) })
				rapid.VerifSetFlags(old)
				verdict, _, _, msg, _ := classifyTB(tb)
				stats["same_function_site_runs"]++
				if esc == nil && (verdict == "failed" || verdict == "panic") && first == "A" && last != first {
					fails = append(fails, oracleFailure{"C05", "the minimized failure is raised at another site than the failure found",
						fmt.Sprintf("IntRange(0,1000000): x >= 500000 fails at one line, 1000 <= x < 500000 at another line of the same function (variant %d)", variant), 100, (*seed + k*104729) | 1, "300ms",
						fmt.Sprintf("found at site %s, reported at site %q (verdict %s, msg %q)", first, last, verdict, msg), *seed, 900009, *prof})
					break
				}
			}
		}
	}
	// a failure that was persisted is a real one on the next run too: the fail file is replayed (twice: reproduction),
	// and the deterministic property must be reported as failed after 0 tests with the same values, never as flaky
	if *only < 0 || *only == 900010 {
		cwd, _ := os.Getwd()
		if dir, err := os.MkdirTemp("", "verif-c01-ff-"); err == nil {
			_ = os.Chdir(dir)
			for k, gen := range []*rapid.Generator[[]int]{rapid.SliceOfN(rapid.IntRange(0, 5000), 1, 20), rapid.SliceOfN(rapid.IntRange(-3, 3), 3, 40)} {
				var lastVals string
				prop := func(t *rapid.T) {
					v := gen.Draw(t, "v")
					lastVals = fmt.Sprint(v)
					sum := 0
					for _, x := range v {
						sum += x
					}
					if sum > 1000 || len(v) > 6 {
						t.Fatalf("sum %d of %d elements", sum, len(v))
					}
				}
				name := fmt.Sprintf("TwoRun%d", k)
				old := setFlags(200, (*seed+uint64(k))|1, 100*time.Millisecond, false)
				tb1 := &recTB{name: name}
				esc1 := runTB(func() { rapid.Check(tb1, prop) })
				v1, _, _, msg1, _ := classifyTB(tb1)
				vals1 := lastVals
				tb2 := &recTB{name: name}
				esc2 := runTB(func() { rapid.Check(tb2, prop) })
				v2, n2, _, msg2, _ := classifyTB(tb2)
				vals2 := lastVals
				rapid.VerifSetFlags(old)
				stats["two_run_fail_file_runs"]++
				if v1 != "failed" || esc1 != nil {
					continue
				}
				stats["two_run_fail_file_compared"]++
				if esc2 != nil || v2 != "failed" || n2 != 0 || msg1 != msg2 || vals1 != vals2 {
					d := fmt.Sprintf("first run: %s %q values %s; second run: %s after %d tests %q values %s escaped=%v errors=%q", v1, msg1, vals1, v2, n2, msg2, vals2, esc2, tb2.Errors)
					fails = append(fails, oracleFailure{"C01", "a deterministic property was called flaky", "two runs of a failing property with fail files enabled: the second run replays the saved failure", 200, (*seed + uint64(k)) | 1, "100ms", d, *seed, 900010, *prof})
					fails = append(fails, oracleFailure{"C06", "the saved failure is not replayed first with the same failure and values", "two runs of a failing property with fail files enabled", 200, (*seed + uint64(k)) | 1, "100ms", d, *seed, 900010, *prof})
				}
			}
			_ = os.Chdir(cwd)
			_ = os.RemoveAll(dir)
		}
	}
	// the skip budget: Check gives up only after 10*N *skipped* test cases; valid ones do not count against it. A
	// property (stateful on purpose: the k-th invocation decides) passes lead times, then skips s times, then passes
	if *only < 0 || *only == 900008 {
		for _, n := range []int{1, 2, 3, 7, 20} {
			for _, lead := range []int{0, n - 1} {
				for _, sk := range []int{0, 1, 9*n - 1, 9 * n, 9*n + 1, 10*n - 1, 10 * n, 10*n + 3} {
					if sk < 0 {
						continue
					}
					calls := 0
					prop := func(t *rapid.T) {
						calls++
						if calls > lead && calls <= lead+sk {
							t.Skip("not this one")
						}
					}
					old := setFlags(n, *seed|1, 0, true)
					tb := &recTB{name: "T"}
					esc := runTB(func() { rapid.Check(tb, prop) })
					rapid.VerifSetFlags(old)
					verdict, a, b, msg, _ := classifyTB(tb)
					stats["skip_budget_runs"]++
					wantVerdict, wantA, wantB, wantCalls := "ok", n, 0, n+sk
					if sk >= 10*n {
						wantVerdict, wantA, wantB, wantCalls = "onlygen", lead, lead+10*n, lead+10*n
					}
					if esc != nil || verdict != wantVerdict || a != wantA || b != wantB || calls != wantCalls {
						fails = append(fails, oracleFailure{"C09", "Check does not do the promised amount of work: skipped test cases only count against the budget of 10*N skipped ones",
							fmt.Sprintf("property that passes %d times, then skips %d times, then passes; -rapid.checks=%d", lead, sk, n), n, *seed | 1, "0s",
							fmt.Sprintf("verdict=%s (%d, %d) after %d invocations, expected %s (%d, %d) after %d; msg=%q escaped=%v errors=%q", verdict, a, b, calls, wantVerdict, wantA, wantB, wantCalls, msg, esc, tb.Errors), *seed, 900008, *prof})
					}
				}
			}
		}
	}
	// many large passing test cases in one run: every one of them is valid on its own, whatever ran before it
	if *only < 0 || *only == 900003 {
		gbig := rapid.SliceOfN(rapid.Uint16(), 50000, 60000)
		prop := func(t *rapid.T) { _ = gbig.Draw(t, "s") }
		old := setFlags(12, *seed|1, 0, true)
		tb := &recTB{name: "T"}
		esc := runTB(func() { rapid.Check(tb, prop) })
		rapid.VerifSetFlags(old)
		verdict, valid, _, msg, _ := classifyTB(tb)
		stats["many_big_cases_runs"]++
		if esc != nil || verdict != "ok" || valid != 12 {
			fails = append(fails, oracleFailure{"C11", "a test case that is valid on its own is judged by what earlier test cases consumed", "12 passing cases of SliceOfN(Uint16(),50000,60000)", 12, *seed | 1, "0s",
				fmt.Sprintf("verdict=%s valid=%d msg=%q escaped=%v errors=%q", verdict, valid, msg, esc, tb.Errors), *seed, 900003, *prof})
		}
	}
	for i := 0; i < *n; i++ {
		if *only >= 0 && i != *only {
			continue
		}
		r := &Rng{s: *seed*8000009 + uint64(i)}
		p := GenProgram(r, pf)
		checks := pick(r, 1, 3, 10, 30, 100)
		base := r.next() | 1
		var buf0 []uint64
		have0 := false
		shd := time.Duration(*shrinkMs) * time.Millisecond
		if *shrinkUs > 0 {
			shd = time.Duration(*shrinkUs) * time.Microsecond
		}
		// isolation: with test cases that skip before drawing anything in between (a stateful wrapper: the
		// model cannot express it), the failing case findBug reports runs on the bitstream of its own seed
		if i%3 == 0 {
			cnt := 0
			skipAt := map[int]bool{}
			for k := 1 + r.intn(3); k > 0; k-- {
				skipAt[r.intn(6)] = true
			}
			var runsW []*Run
			inner := p.PropMulti(&runsW)
			wrapped := func(t *rapid.T) {
				c := cnt
				cnt++
				if skipAt[c] {
					t.Skip("stateful skip before any draw")
				}
				inner(t)
			}
			old := setFlags(checks, base, 0, true)
			var fe rapid.VerifError
			var fseed uint64
			esc := runTB(func() { _, _, _, fseed, fe = rapid.VerifFindBug(&recTB{name: "T"}, checks, base, wrapped) })
			rapid.VerifSetFlags(old)
			stats["isolation_runs"]++
			if esc == nil && (fe.Kind == "stop" || fe.Kind == "panic") && len(runsW) > 0 {
				run2 := NewRun()
				e2 := rapid.VerifRunSeedNoPersist(nil, fseed, p.Prop(&run2))
				last := runsW[len(runsW)-1]
				stats["isolation_compared"]++
				if oresCoq(fe) != oresCoq(e2) || runEndedHow(last) != runEndedHow(run2) {
					what := "a test case did not run on the bitstream of its own seed: running the reported seed alone gives another test case"
					add("C11", what, p, checks, base, 0, fmt.Sprintf("skips at %v; in run: %s %s; alone on seed %d: %s %s", skipAt, oresCoq(fe), runEndedHow(last), fseed, oresCoq(e2), runEndedHow(run2)), i)
					add("C07", what, p, checks, base, 0, fmt.Sprintf("seed %d", fseed), i)
				}
			}
		}
		for _, sh := range []time.Duration{0, shd} {
			o := RunCheck(p, "T", checks, base, sh)
			stats["checks_run"]++
			stats["verdict_"+o.Verdict]++
			if *only >= 0 {
				fmt.Fprintf(os.Stderr, "shrink=%v verdict=%s valid=%d msg=%q seed=%d failed=%v failnow=%v invocations=%d\n errors=%q\n", sh, o.Verdict, o.Valid, o.Msg, o.SeedShown, o.Failed, o.FailNow, len(o.Runs), o.TB.Errors)
			}
			if o.Escaped != "" {
				add("C02", "a panic escaped Check", p, checks, base, sh, o.Escaped, i)
				continue
			}
			// C09: FailNow iff failed; verdict/ counts
			if o.Failed != o.FailNow {
				add("C09", "TB failed but FailNow not called (or vice versa)", p, checks, base, sh, "", i)
			}
			// a test case that called Skip itself (outside Custom bodies and actions, where a skip only rejects an
			// attempt) ends there: nothing of it runs afterwards and it is not counted as valid
			for j, rr := range o.Runs {
				if k := continuesAfterSkip(rr.Brk); k >= 0 {
					add("C09", "a test case went on after it had skipped itself (a skipped case counted as run)", p, checks, base, sh,
						fmt.Sprintf("invocation %d: event %d %s follows the skip; events %s", j, k, rr.Brk[k], strings.Join(rr.Brk, ";")), i)
					break
				}
			}
			anySignal := false
			firstSignal := -1
			for j, rr := range o.Runs {
				if hasSignal(rr) {
					anySignal = true
					if firstSignal < 0 {
						firstSignal = j
					}
				}
			}
			switch o.Verdict {
			case "ok":
				if o.Valid != checks {
					add("C09", "passed with fewer valid cases than -rapid.checks", p, checks, base, sh, fmt.Sprint(o.Valid), i)
				}
				if anySignal {
					what := "a failure signal was lost: Check passed although an invocation signalled a failure"
					if panicLostToCleanupDraw(o.Runs[firstSignal].Brk) {
						what += ": a Custom generator function panicked and a cleanup function registered by it then ran out of data"
					}
					add("C02", what, p, checks, base, sh, fmt.Sprintf("invocation %d: %s", firstSignal, runEndedHow(o.Runs[firstSignal])), i)
				}
				if o.Failed {
					add("C09", "OK logged but TB failed", p, checks, base, sh, "", i)
				}
			case "onlygen":
				if anySignal {
					what := "a failure signal was lost: only-generated verdict although an invocation signalled"
					if panicLostToCleanupDraw(o.Runs[firstSignal].Brk) {
						what += ": a Custom generator function panicked and a cleanup function registered by it then ran out of data"
					}
					add("C02", what, p, checks, base, sh, "", i)
				}
				if o.Total-o.Valid != checks*10 || o.Valid >= checks {
					add("C09", "only-generated verdict with wrong counts", p, checks, base, sh, fmt.Sprintf("valid=%d total=%d", o.Valid, o.Total), i)
				}
			case "flaky":
				add("C01", "a deterministic property was called flaky", p, checks, base, sh, strings.Join(o.TB.Errors, "\n"), i)
				// "flaky" means: the seed findBug returned for the failing case did not reproduce it in doCheck's own re-run
				add("C07", "the seed of the failing case does not reproduce it (Check's own re-run with that seed ended differently: 'flaky')", p, checks, base, sh, strings.Join(o.TB.Errors, "\n"), i)
			case "failed", "panic":
				if !anySignal && (reUser.MatchString(o.Msg) || strings.Contains(o.Msg, "called")) {
					add("C11", "a failure was reported although no invocation signalled one", p, checks, base, sh, o.Msg, i)
				}
				// C05 from the harness's own event log (independent of rapid's tracebacks): the fatal failure of the final
				// replay is raised at the site (trampoline id + recursion depth) of the failure originally found
				if firstSignal >= 0 && len(o.Runs) > 0 {
					k1, id1 := fatalSite(o.Runs[firstSignal].Events)
					k2, id2 := fatalSite(o.Runs[len(o.Runs)-1].Events)
					if k1 != "" && k2 != "" && (k1 != k2 || id1 != id2) {
						add("C05", "the minimized failure is raised at another site than the failure found", p, checks, base, sh,
							fmt.Sprintf("found: %s site %d (invocation %d); reported: %s site %d", k1, id1, firstSignal, k2, id2), i)
					}
				}
				// the test case presented as the falsifying one (the final replay) is one in which a failure was signalled;
				// a case that merely skipped is never the reported one
				knownClass := false // the two open findings (known_findings.json): their counterexample loses the failure
				for _, rr := range o.Runs {
					knownClass = knownClass || rejectedAttemptEffects(rr.Events) != ""
				}
				if strings.Contains(o.Msg, "invalid data") || (len(o.Runs) > 0 && anySignal && !knownClass && !hasSignal(o.Runs[len(o.Runs)-1]) &&
					(reUser.MatchString(o.Msg) || strings.Contains(o.Msg, "called"))) {
					last := ""
					if len(o.Runs) > 0 {
						last = runEndedHow(o.Runs[len(o.Runs)-1])
					}
					add("C11", "the test case presented as falsifying is one in which nothing failed", p, checks, base, sh, o.Msg+" | final replay: "+last, i)
				}
				// C01/C05 through the export: the buffer doCheck returns must fail with the error it returns
				failingEvents := ""
				{
					old := setFlags(checks, base, sh, true)
					var dc rapid.VerifCheckResult
					var runs2 []*Run
					esc := runTB(func() { dc = rapid.VerifDoCheck(&recTB{name: "T"}, checks, base, "", false, p.PropMulti(&runs2)) })
					rapid.VerifSetFlags(old)
					if idx := dc.Valid + dc.Invalid; esc == nil && dc.Err2.Kind != "" && idx < len(runs2) && dc.Seed == o.SeedShown {
						failingEvents = runEndedHow(runs2[idx])
						if failingEvents == "" {
							failingEvents = "(no events)"
						}
					}
					if esc == nil && dc.Err2.Kind != "" {
						stats["reported_buffers_replayed"]++
						tmp := NewRun()
						e3, _ := rapid.VerifRunBuf(nil, dc.Buf, false, p.Prop(&tmp))
						if oresCoq(e3) != oresCoq(dc.Err2) {
							what := "the reported buffer does not fail with the reported error"
							if idx := dc.Valid + dc.Invalid; idx < len(runs2) {
								if k := rejectedAttemptEffects(runs2[idx].Events); k != "" {
									what += ": " + k
								}
							}
							add("C01", what, p, checks, base, sh,
								fmt.Sprintf("buf=%v reported=%s replay=%s", dc.Buf, oresCoq(dc.Err2), oresCoq(e3)), i)
						}
						c1, id1 := canonSite(dc.Err1)
						c2, id2 := canonSite(dc.Err2)
						nonfatal := func(c string) bool { return c == "CTop" || c == "CLate" || c == "CRI" || c == "CRC" || c == "CRA" }
						if !(c1 == c2 && id1 == id2) && !(nonfatal(c1) && nonfatal(c2)) {
							add("C05", "the minimized failure has another failure site than the failure found", p, checks, base, sh,
								fmt.Sprintf("found=%s minimized=%s", oresCoq(dc.Err1), oresCoq(dc.Err2)), i)
						}
						if sh == 0 {
							buf0 = dc.Buf
							have0 = true
						} else if have0 && rapid.VerifCompareData(dc.Buf, buf0) > 0 {
							add("C05", "the minimized bitstream is larger than the unminimized one", p, checks, base, sh,
								fmt.Sprintf("min=%v orig=%v", dc.Buf, buf0), i)
						}
					}
				}
				// C07: the printed seed reproduces at the first case
				if o.SeedShown != 0 {
					o2 := RunCheck(p, "T", checks, o.SeedShown, 0)
					stats["seed_reruns"]++
					if !(o2.Verdict == "failed" || o2.Verdict == "panic") || o2.Valid != 0 {
						add("C07", "the printed seed does not reproduce the failure after 0 tests", p, checks, base, sh, fmt.Sprintf("rerun verdict=%s valid=%d", o2.Verdict, o2.Valid), i)
					} else if len(o2.Runs) > 0 && failingEvents != "" {
						// the first invocation of the rerun must be the originally failing invocation
						if runEndedHow(o2.Runs[0]) != failingEvents {
							add("C07", "the first case of the rerun differs from the originally failing case", p, checks, base, sh,
								fmt.Sprintf("orig=%s rerun=%s", failingEvents, runEndedHow(o2.Runs[0])), i)
						}
					}
				} else {
					add("C07", "no seed printed for a failure found by random testing", p, checks, base, sh, "", i)
				}
				// C09: no fresh random case after the first falsified one: invocations up to the failing one <= valid+invalid+1
				if o.Valid > checks {
					add("C09", "more valid cases than -rapid.checks before a failure", p, checks, base, sh, "", i)
				}
			case "none":
				add("C09", "Check produced neither a verdict nor a failure", p, checks, base, sh, strings.Join(o.TB.Logs, "|"), i)
			}
		}
	}
	js, _ := json.Marshal(map[string]any{"stats": stats, "failures": fails})
	fmt.Println(string(js))
}

// rejectedAttemptEffects names the (known) input class in which a rejected attempt left a trace on the
// test state that its pruned bits no longer reproduce: a cleanup registered / context created by a rejected
// state-machine step.  (A non-fatal failure signalled by a cleanup function of a rejected Custom attempt used
// to be a second class; it is repaired in /repo a8d7609 and is an ordinary violation if it returns.)
func rejectedAttemptEffects(events []string) string {
	for i, e := range events {
		if strings.HasPrefix(e, "(UActEnd") && strings.HasSuffix(e, " 2)") {
			for j := i - 1; j >= 0 && !strings.HasPrefix(events[j], "(UAct "); j-- {
				if strings.HasPrefix(events[j], "(UReg") || events[j] == "UCtxNew" {
					return "a rejected state-machine step registered a cleanup or created the context"
				}
			}
		}
	}
	return ""
}

//go:noinline
func cleanupSiteA() { panic("cleanup failure") }

//go:noinline
func deepDescend(t *rapid.T, depth int, x int) {
	if depth > 0 {
		deepDescend(t, depth-1, x)
		return
	}
	t.Fatalf("invariant broken")
}

//go:noinline
func twoSitesHelper(t *rapid.T, x int, note func(string)) {
	if x >= 500000 {
		note("A")
		t.Fatalf("invariant broken")
	}
	if x >= 1000 {
		note("B")
		t.Fatalf("invariant broken")
	}
}

//go:noinline
func deepSiteA(t *rapid.T, depth int, x int) { deepDescend(t, depth, x) }

//go:noinline
func deepSiteB(t *rapid.T, depth int, x int) { deepDescend(t, depth, x) }

//go:noinline
func cleanupSiteB() { panic("cleanup failure") }
