package main

// C10 oracle on the implementation: the bracket grammar checked on the harness's own event log of every
// invocation that a Check makes (generation, reproduction, every minimization attempt, final replay).

import (
	"encoding/json"
	"flag"
	"fmt"
	"strconv"
	"strings"
	"time"
)

func init() {
	register("c10-oracle", cmdC10Oracle)
	register("c08-oracle", cmdC08Oracle)
}

type bframe struct {
	stack    []int
	closing  bool // the function of this T has returned/panicked: its cleanups are running
	cleaning bool // a cleanup of this T has started
	running  int  // cleanup functions of this T that have started and not yet ended
}

// checkBracket returns "" when the event log (Run.Brk: events plus the end of every cleanup function) obeys the
// discipline.  A Custom generator's inner T is a frame: it is finished when its function has ended, its stack
// is empty and none of its cleanup functions is still running.
func checkBracket(events []string) string {
	frames := []*bframe{{}}
	var runningIn []*bframe // frames of the cleanup functions currently executing, innermost last
	top := func() *bframe { return frames[len(frames)-1] }
	num := func(e string) int {
		f := strings.Fields(strings.Trim(e, "()"))
		n, _ := strconv.Atoi(f[1])
		return n
	}
	dropDone := func() {
		for len(frames) > 1 && top().closing && len(top().stack) == 0 && top().running == 0 {
			frames = frames[:len(frames)-1]
		}
	}
	for i, e := range events {
		if !strings.HasPrefix(e, "(URunEnd") {
			dropDone()
		}
		switch {
		case e == "UCustomBegin":
			frames = append(frames, &bframe{})
		case strings.HasPrefix(e, "(UCustomEnd"):
			// the innermost frame that is not yet closing is the one whose function just ended
			for j := len(frames) - 1; j >= 1; j-- {
				if !frames[j].closing {
					for k := j + 1; k < len(frames); k++ {
						if len(frames[k].stack) != 0 {
							return fmt.Sprintf("event %d: inner T left with %d cleanups not run", i, len(frames[k].stack))
						}
					}
					frames = frames[:j+1]
					frames[j].closing = true
					break
				}
			}
		case strings.HasPrefix(e, "(UReg "):
			top().stack = append(top().stack, num(e))
		case strings.HasPrefix(e, "(URun "):
			f := top()
			if len(f.stack) == 0 {
				return fmt.Sprintf("event %d: cleanup %d runs but is not registered on the current T (or ran already)", i, num(e))
			}
			if f.stack[len(f.stack)-1] != num(e) {
				return fmt.Sprintf("event %d: cleanup %d runs out of LIFO order (top is %d)", i, num(e), f.stack[len(f.stack)-1])
			}
			f.stack = f.stack[:len(f.stack)-1]
			f.cleaning = true
			f.running++
			runningIn = append(runningIn, f)
		case strings.HasPrefix(e, "(URunEnd "):
			if len(runningIn) > 0 {
				runningIn[len(runningIn)-1].running--
				runningIn = runningIn[:len(runningIn)-1]
			}
		case e == "(UCtxSeen true)":
			if top().cleaning {
				return fmt.Sprintf("event %d: live context observed after a cleanup of the same T started", i)
			}
		case e == "(UCtxSeen false)":
			if !top().cleaning {
				return fmt.Sprintf("event %d: dead context observed during the call, before any cleanup ran", i)
			}
		}
	}
	for _, f := range frames {
		if len(f.stack) != 0 {
			return fmt.Sprintf("invocation ended with %d registered cleanups not run", len(f.stack))
		}
	}
	return ""
}

func cmdC10Oracle(args []string) {
	fs := flag.NewFlagSet("c10-oracle", flag.ExitOnError)
	n := fs.Int("n", 100, "programs")
	seed := fs.Uint64("seed", 1, "generator seed")
	shrinkMs := fs.Int("shrinkms", 200, "shrink time (ms)")
	only := fs.Int("only", -1, "just this index")
	_ = fs.Parse(args)
	calibrate()
	pf := ProfAll
	pf.Cleanup, pf.Context, pf.Custom = 5, 4, 4
	stats := map[string]int{}
	var fails []map[string]any
	var samples []string
	for i := 0; i < *n; i++ {
		if *only >= 0 && i != *only {
			continue
		}
		r := &Rng{s: *seed*5000011 + uint64(i)}
		p := GenProgram(r, pf)
		o := RunCheck(p, "T", pick(r, 5, 20, 100), r.next()|1, time.Duration(*shrinkMs)*time.Millisecond)
		stats["checks_run"]++
		stats["invocations"] += len(o.Runs)
		for j, run := range o.Runs {
			for _, e := range run.Events {
				switch {
				case strings.HasPrefix(e, "(UReg"):
					stats["registrations"]++
				case strings.HasPrefix(e, "(UCtxSeen"):
					stats["context_samples"]++
				}
			}
			if msg := checkBracket(run.Brk); msg != "" {
				fails = append(fails, map[string]any{"property": "C10", "what": "bracket discipline violated: " + strings.SplitN(msg, ":", 2)[len(strings.SplitN(msg, ":", 2))-1],
					"detail": msg, "invocation": j, "events": run.Brk, "program": p.Root.coq(), "index": i})
				break
			}
			for _, v := range run.CtxViolations {
				fails = append(fails, map[string]any{"property": "C10", "what": v, "invocation": j, "program": p.Root.coq(), "index": i})
			}
		}
		if len(samples) < 2 && len(o.Runs) > 3 {
			samples = append(samples, fmt.Sprintf("%s: %d invocations, verdict %s; first: %v", p.Root.coq(), len(o.Runs), o.Verdict, o.Runs[0].Events))
		}
	}
	js, _ := json.Marshal(map[string]any{"stats": stats, "failures": fails, "samples": samples})
	fmt.Println(string(js))
}

// checkRepeat: the check/action discipline on the harness's state-machine log (nested machines on a stack)
func checkRepeat(rep []string) string {
	type mach struct {
		n       int
		haschk  bool
		st      string // need, loop, act
		cur     int
		failed  bool // a falsification was signalled while this machine was running
		checked bool // the invariant check ran at least once
	}
	var stack []*mach
	for k, e := range rep {
		f := strings.Fields(strings.Trim(e, "()"))
		switch f[0] {
		case "B":
			n, _ := strconv.Atoi(f[1])
			m := &mach{n: n, haschk: f[2] == "true", st: "loop"}
			if m.haschk && n > 0 {
				m.st = "need"
			}
			stack = append(stack, m)
		case "E":
			if len(stack) == 0 {
				return "end without begin"
			}
			if m := stack[len(stack)-1]; m.haschk && m.n > 0 && !m.checked {
				return fmt.Sprintf("event %d: the machine ended without ever running the invariant check (not even on the initial state)", k)
			}
			stack = stack[:len(stack)-1]
		case "S":
			for _, m := range stack {
				m.failed = true
			}
		case "UChk":
			if len(stack) == 0 {
				return fmt.Sprintf("event %d: invariant outside a state machine", k)
			}
			m := stack[len(stack)-1]
			if m.failed {
				return fmt.Sprintf("event %d: the machine runs on (invariant check) after the property was falsified", k)
			}
			if m.st != "need" {
				return fmt.Sprintf("event %d: invariant runs when none is due (state %s)", k, m.st)
			}
			m.st = "loop"
			m.checked = true
		case "UAct":
			if len(stack) == 0 {
				return fmt.Sprintf("event %d: action outside a state machine", k)
			}
			m := stack[len(stack)-1]
			i, _ := strconv.Atoi(f[1])
			if m.failed {
				return fmt.Sprintf("event %d: the machine runs on (action %d) after the property was falsified", k, i)
			}
			if m.st != "loop" {
				return fmt.Sprintf("event %d: action %d starts in state %s", k, i, m.st)
			}
			if i < 0 || i >= m.n {
				return fmt.Sprintf("event %d: action %d is not one of the %d supplied", k, i, m.n)
			}
			m.st, m.cur = "act", i
		case "UActEnd":
			if len(stack) == 0 {
				return fmt.Sprintf("event %d: action end outside a state machine", k)
			}
			m := stack[len(stack)-1]
			i, _ := strconv.Atoi(f[1])
			how, _ := strconv.Atoi(f[2])
			if m.st != "act" || m.cur != i {
				return fmt.Sprintf("event %d: end of action %d without its start", k, i)
			}
			if how == 0 && m.haschk {
				m.st = "need"
			} else {
				m.st = "loop"
			}
		}
	}
	return ""
}

func cmdC08Oracle(args []string) {
	fs := flag.NewFlagSet("c08-oracle", flag.ExitOnError)
	n := fs.Int("n", 100, "programs")
	seed := fs.Uint64("seed", 1, "generator seed")
	shrinkMs := fs.Int("shrinkms", 200, "shrink time (ms)")
	only := fs.Int("only", -1, "just this index")
	_ = fs.Parse(args)
	calibrate()
	pf := ProfAll
	pf.Repeat = 8
	stats := map[string]int{}
	var fails []map[string]any
	var samples []string
	for i := 0; i < *n; i++ {
		if *only >= 0 && i != *only {
			continue
		}
		r := &Rng{s: *seed*4000037 + uint64(i)}
		p := GenProgram(r, pf)
		o := RunCheck(p, "T", pick(r, 5, 20, 100), r.next()|1, time.Duration(*shrinkMs)*time.Millisecond)
		stats["checks_run"]++
		stats["invocations"] += len(o.Runs)
		for j, run := range o.Runs {
			for _, e := range run.Rep {
				switch {
				case strings.HasPrefix(e, "(UAct "):
					stats["actions"]++
				case e == "UChk":
					stats["invariant_runs"]++
				case strings.HasPrefix(e, "(UActEnd") && !strings.HasSuffix(e, " 0)"):
					stats["actions_skipped_or_rejected"]++
				}
			}
			if msg := checkRepeat(run.Rep); msg != "" {
				fails = append(fails, map[string]any{"property": "C08", "what": "state-machine discipline violated: " + strings.SplitN(msg, ": ", 2)[len(strings.SplitN(msg, ": ", 2))-1],
					"detail": msg, "invocation": j, "events": run.Rep, "program": p.Root.coq(), "index": i})
				break
			}
		}
		if len(samples) < 2 && len(o.Runs) > 2 && len(o.Runs[0].Rep) > 4 {
			samples = append(samples, fmt.Sprintf("%s: verdict %s; first invocation: %v", p.Root.coq(), o.Verdict, o.Runs[0].Rep))
		}
	}
	// a non-fatal failure deep inside an action (a Custom generator inside a Custom generator, then a skip): the
	// machine stops; it is neither a rejected step nor a reason to go on
	{
		leaf := &Gen{Op: "uint", Kind: "Uint64", Variant: "range", UMin: 0, UMax: 3}
		inner := &Gen{Op: "custom", Body: &Stmt{Op: "draw", G: leaf, Next: &Stmt{Op: "fail", Kind: "error", Variant: "errorf", Id: 1, Msg: 7,
			Next: &Stmt{Op: "skip", Variant: "skip", Msg: 3}}}}
		outer := &Gen{Op: "custom", Body: &Stmt{Op: "draw", G: inner, Next: &Stmt{Op: "ret", E: cvar(0)}}}
		act := &Stmt{Op: "draw", G: outer, Next: &Stmt{Op: "ret", E: &VExp{Op: "add", A: cvar(0), B: cconst(zv(1))}}}
		chk := &Stmt{Op: "log", Msg: 9, Next: retUnit()}
		p := NewProgram(&Stmt{Op: "repeat", Id: 2, E: cconst(zv(0)), A: chk, Acts: []*Stmt{act}, Next: retUnit()})
		o := RunCheck(p, "T", 5, *seed|1, 0)
		stats["nested_custom_failure_runs"]++
		for j, run := range o.Runs {
			if msg := checkRepeat(run.Rep); msg != "" {
				fails = append(fails, map[string]any{"property": "C08", "what": "state-machine discipline violated: " + strings.SplitN(msg, ": ", 2)[len(strings.SplitN(msg, ": ", 2))-1],
					"detail": msg, "invocation": j, "events": run.Rep, "program": p.Root.coq(), "index": -2})
				break
			}
		}
		if !(o.Verdict == "failed" || o.Verdict == "panic") {
			fails = append(fails, map[string]any{"property": "C08", "what": "state-machine discipline violated: a falsification inside an action did not stop the machine and fail the test case",
				"detail": o.Verdict + " " + o.Msg, "program": p.Root.coq(), "index": -2})
		}
	}
	// the no-valid-action case: a machine whose only action always skips must fail, not hang
	{
		act := &Stmt{Op: "skip", Variant: "skip", Msg: 1}
		p := NewProgram(&Stmt{Op: "repeat", Id: 1, E: cconst(zv(0)), Acts: []*Stmt{act, act}, Next: retUnit()})
		done := make(chan checkObs, 1)
		go func() { done <- RunCheck(p, "T", 5, 12345, 0) }()
		select {
		case o := <-done:
			stats["no_valid_action_runs"]++
			if !(o.Verdict == "failed" && strings.Contains(o.Msg, "valid")) {
				fails = append(fails, map[string]any{"property": "C08", "what": "a machine with no runnable action does not report the no-valid-action failure", "detail": o.Verdict + " " + o.Msg, "index": -1})
			}
		case <-time.After(20 * time.Second):
			fails = append(fails, map[string]any{"property": "C08", "what": "a machine with no runnable action loops forever", "index": -1})
		}
	}
	js, _ := json.Marshal(map[string]any{"stats": stats, "failures": fails, "samples": samples})
	fmt.Println(string(js))
}
