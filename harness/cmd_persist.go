package main

// Fail-file persistence (C06, C16, C17): shared helpers and the `persist-cases` subcommand, which
// runs the REAL saveFailFile / loadFailFile / kindaSafeFilename / failFileName / failFilePattern and
// the library functions they rest on (strconv.ParseUint, strings.TrimSpace, bufio.ScanLines,
// filepath.Match/Glob) on generated inputs and writes a Coq case file (Model/PersistCorr.v evaluates
// it: the ids on which the model computes something else are printed).
//
// Other persist subcommands: cmd_persist_tworun.go (persist-tworun), cmd_persist_crash.go
// (persist-crash).

import (
	"bufio"
	"bytes"
	"encoding/json"
	"errors"
	"flag"
	"fmt"
	"hash/fnv"
	"math"
	"os"
	"path/filepath"
	"sort"
	"strconv"
	"strings"
	"unicode"
	"unicode/utf8"

	"pgregory.net/rapid"
)

// ------------------------------------------------------------------------------------------------
// Coq rendering helpers (shared by all persist subcommands)

const persistLitChunk = 3000 // Coq overflows its stack on very long string literals

// persistBexp renders a byte string as a Model/PersistCorr.v `bexp`: runs of one byte become BRep,
// printable ASCII becomes BLit, the rest BHex.
func persistBexp(b []byte) string {
	if len(b) == 0 {
		return "(BRaw [])"
	}
	var parts []string
	flush := func(seg []byte) {
		for len(seg) > 0 {
			n := len(seg)
			if n > persistLitChunk {
				n = persistLitChunk
			}
			chunk := seg[:n]
			seg = seg[n:]
			printable := true
			for _, c := range chunk {
				if c < 0x20 || c > 0x7e || c == '"' {
					printable = false
					break
				}
			}
			if printable {
				parts = append(parts, "BLit \""+string(chunk)+"\"")
			} else {
				parts = append(parts, fmt.Sprintf("BHex \"%x\"", chunk))
			}
		}
	}
	start := 0
	i := 0
	for i < len(b) {
		j := i
		for j < len(b) && b[j] == b[i] {
			j++
		}
		if j-i >= 48 {
			flush(b[start:i])
			parts = append(parts, fmt.Sprintf("BRep %d (BRaw [%d])", j-i, b[i]))
			start = j
		}
		i = j
	}
	flush(b[start:])
	if len(parts) == 1 {
		return "(" + parts[0] + ")"
	}
	return "(BCat [" + strings.Join(parts, "; ") + "])"
}

// persistRunes renders a Go string as the list of code points `for _, r := range s` yields.
func persistRunes(s string) string {
	var parts []string
	for _, r := range s {
		parts = append(parts, strconv.Itoa(int(r)))
	}
	return "[" + strings.Join(parts, "; ") + "]"
}

func persistNList(ws []uint64) string {
	parts := make([]string, len(ws))
	for i, w := range ws {
		parts[i] = strconv.FormatUint(w, 10)
	}
	return "[" + strings.Join(parts, "; ") + "]"
}

// persistErrClass maps an error of loadFailFile to the model's error class (by the six return sites).
func persistErrClass(err error) string {
	if err == nil {
		return ""
	}
	msg := err.Error()
	var ne *strconv.NumError
	switch {
	case strings.HasPrefix(msg, "failed to open fail file"):
		return "ErrOpen"
	case strings.HasPrefix(msg, "no data in fail file"):
		return "ErrNoData"
	case strings.HasPrefix(msg, "invalid version/seed field"):
		return "ErrFields"
	case strings.HasPrefix(msg, "invalid seed"):
		return "ErrSeed"
	case strings.HasPrefix(msg, "failed to load fail file") && errors.As(err, &ne):
		return "ErrWord"
	case strings.HasPrefix(msg, "failed to load fail file"):
		return "ErrScan"
	}
	return "ErrUnknown(" + msg + ")"
}

// persistLres renders the result of loadFailFile as a PersistCorr.v `lres`.
func persistLres(ver string, seed uint64, buf []uint64, err error) string {
	if err != nil {
		return "(RErr " + persistErrClass(err) + ")"
	}
	return fmt.Sprintf("(ROk %s %d %s)", persistBexp([]byte(ver)), seed, persistNList(buf))
}

const persistCaseHeader = `From Coq Require Import List NArith Bool String.
Import ListNotations.
Require Import Rapid.Generated.Consts Rapid.Generated.UnicodeLD Rapid.Model.Persist Rapid.Model.FS Rapid.Model.PersistCorr.
Open Scope N_scope.
Open Scope string_scope.
`

// ------------------------------------------------------------------------------------------------
// unicode oracles, by exhaustive enumeration of all code points

func persistLDRanges() [][2]int {
	var out [][2]int
	in := false
	lo := 0
	for r := 0; r <= unicode.MaxRune+1; r++ {
		is := r <= unicode.MaxRune && (unicode.IsLetter(rune(r)) || unicode.IsDigit(rune(r)))
		if is && !in {
			lo, in = r, true
		} else if !is && in {
			out = append(out, [2]int{lo, r - 1})
			in = false
		}
	}
	return out
}

func persistUpperTable() [][2]int {
	var out [][2]int
	for r := 0; r <= unicode.MaxRune; r++ {
		if u := unicode.ToUpper(rune(r)); int(u) != r {
			out = append(out, [2]int{r, int(u)})
		}
	}
	return out
}

func persistPairs(ps [][2]int) string {
	var b strings.Builder
	b.WriteString("[")
	for i, p := range ps {
		if i > 0 {
			b.WriteString("; ")
			if i%8 == 0 {
				b.WriteString("\n  ")
			}
		}
		fmt.Fprintf(&b, "(%d,%d)", p[0], p[1])
	}
	b.WriteString("]")
	return b.String()
}

// ------------------------------------------------------------------------------------------------
// input generation

type persistStats struct {
	Cases          int            `json:"cases"`
	Classes        map[string]int `json:"input_classes"`
	LoadResults    map[string]int `json:"load_results"`
	ParseResults   map[string]int `json:"parse_results"`
	MaxLine        int            `json:"max_output_line_bytes"`
	TotalBytes     int            `json:"total_input_bytes"`
	RoundtripFails []persistFail  `json:"roundtrip_failures"`
	NameFails      []persistFail  `json:"name_failures"`
	LoadPanics     []persistFail  `json:"load_panics"`
	Skipped        map[string]int `json:"skipped"`
	LDRanges       int            `json:"letter_or_digit_ranges"`
	UpperPairs     int            `json:"upper_pairs"`
	Samples        []string       `json:"samples"`
	Distinct       int            `json:"distinct_nontrivial"`
	Hashes         []string       `json:"hashes"` // FNV-64 of every distinct non-trivial case (id removed), for cross-shard counting
}

type persistFail struct {
	ID     int    `json:"id"`
	Class  string `json:"class"`
	What   string `json:"what"`
	Replay string `json:"replay"`
}

type persistGen struct {
	r     *Rng
	b     strings.Builder
	st    persistStats
	id    int
	dir   string // scratch directory
	first bool
	seed  uint64
	seen  map[uint64]bool
}

// emit adds a case; nontrivial says whether its input is non-empty (the rule for distinct_nontrivial)
func (g *persistGen) emit(class, term string, nontrivial bool) {
	if nontrivial {
		// the id is the first number of the term: drop it before hashing
		body := term
		if i := strings.IndexByte(term, ' '); i >= 0 {
			if j := strings.IndexByte(term[i+1:], ' '); j >= 0 {
				body = term[:i] + term[i+1+j:]
			}
		}
		h := fnv.New64a()
		h.Write([]byte(body))
		if k := h.Sum64(); !g.seen[k] {
			g.seen[k] = true
			g.st.Distinct++
			g.st.Hashes = append(g.st.Hashes, strconv.FormatUint(k, 36))
		}
	}
	if !g.first {
		g.b.WriteString(";\n")
	}
	g.first = false
	g.b.WriteString("  " + term)
	g.st.Classes[class]++
	g.st.Cases++
	if len(g.st.Samples) < 4 && len(term) < 300 {
		g.st.Samples = append(g.st.Samples, term)
	}
}

func (g *persistGen) nextID() int { g.id++; return g.id }

var persistSpaces = []string{" ", "\t", "\n", "\v", "\f", "\r", "\u0085", "\u00a0", "\u1680", "\u2000", "\u2005", "\u200a", "\u2028", "\u2029", "\u202f", "\u205f", "\u3000"}

// near misses of the space encodings: not spaces
var persistNearSpaces = []string{"\u200b", "\u200c", "\u2007", "\u180e", "\ufeff", "\xc2", "\x85", "\xa0", "\xe2\x80", "\x80\x80", "\xe1\x9a", "\xe3\x80", "\xc2\x84", "\xe2\x80\x8b", "\xe2\x81\x9e", "\xc0\xa0", "\xe0\x80\xa0", "\x1c", "\x1f", "\x00"}

func (g *persistGen) randBytes(n int) []byte {
	b := make([]byte, n)
	for i := range b {
		b[i] = byte(g.r.next())
	}
	return b
}

// text drawn from an alphabet that is hostile to the file format
func (g *persistGen) hostileText(n int) []byte {
	var b []byte
	for len(b) < n {
		switch g.r.intn(12) {
		case 0:
			b = append(b, '\n')
		case 1:
			b = append(b, '\r', '\n')
		case 2:
			b = append(b, '#')
		case 3:
			b = append(b, pick(g.r, persistSpaces...)...)
		case 4:
			b = append(b, pick(g.r, persistNearSpaces...)...)
		case 5:
			b = append(b, byte(g.r.next()))
		case 6:
			b = append(b, []byte(pick(g.r, "0x1f", "v0.4.8#1", "0", "# ", "#", "\r", "\x00"))...)
		default:
			b = append(b, byte('a'+g.r.intn(26)))
		}
	}
	return b
}

func (g *persistGen) output() ([]byte, string) {
	switch g.r.intn(14) {
	case 0:
		return nil, "out:empty"
	case 1:
		return []byte(fmt.Sprintf("[rapid] draw x: %d", g.r.intn(1000))), "out:one-line"
	case 2:
		var b []byte
		for i, n := 0, 1+g.r.intn(6); i < n; i++ {
			b = append(b, fmt.Sprintf("2026/09/30 12:00:00.000000 [TestX] [rapid] draw v%d: %d\n", i, g.r.next())...)
		}
		return b, "out:log-lines"
	case 3, 4:
		return g.randBytes(g.r.intn(120)), "out:random-bytes"
	case 5:
		return bytes.Repeat([]byte("\n"), g.r.intn(5)), "out:newlines-only"
	case 6:
		return []byte("v0.4.8#5\n0x1\n0x2"), "out:looks-like-data"
	case 7:
		return []byte(pick(g.r, "\r", "\r\n", "a\r", "a\r\nb\r", "\r\r\n", "#\r\n#")), "out:cr"
	default:
		return g.hostileText(g.r.intn(150)), "out:hostile-text"
	}
}

func (g *persistGen) word() uint64 {
	switch g.r.intn(4) {
	case 0:
		return pick(g.r, boundaryU...)
	case 1:
		return uint64(g.r.intn(20))
	case 2:
		return g.r.next() >> uint(g.r.intn(64))
	}
	return g.r.next()
}

func (g *persistGen) words() []uint64 {
	n := 0
	switch g.r.intn(5) {
	case 0:
		n = 0
	case 1:
		n = 1
	default:
		n = g.r.intn(24)
	}
	ws := make([]uint64, n)
	for i := range ws {
		ws[i] = g.word()
	}
	return ws
}

func (g *persistGen) version() (string, string) {
	switch g.r.intn(12) {
	case 0:
		return pick(g.r, "v0.4.9", "v1", "x", "v0.4.8 ", "v 0", "\u00e9t\u00e9", "v0.4.8\r", "\u4e16\u754c", "v\x00", "v\xff", "v0.4.8\u00a0"), "ver:other-valid"
	case 1:
		return pick(g.r, "", "#", "v#1", " v", "\tv", "v\nw", "\u00a0v", "\u3000v", "#v", "v\n", "\nv"), "ver:invalid"
	}
	return rapid.VerifRapidVersion(), "ver:rapid"
}

func persistVersionOK(v string) bool {
	if v == "" || strings.ContainsAny(v, "#\n") {
		return false
	}
	return strings.TrimLeftFunc(v, unicode.IsSpace) == v
}

func sameWords(a, b []uint64) bool {
	if len(a) != len(b) {
		return false
	}
	for i := range a {
		if a[i] != b[i] {
			return false
		}
	}
	return true
}

func maxLineLen(out []byte) int {
	m := 0
	for _, l := range bytes.Split(out, []byte("\n")) {
		if len(l) > m {
			m = len(l)
		}
	}
	return m
}

// saveCase runs the real save and load and emits a CSave case; a failed round trip on a valid version
// is a failure of property C06 itself and is recorded with a replay description.
func (g *persistGen) saveCase(class string, ver string, out []byte, seed uint64, ws []uint64) {
	id := g.nextID()
	fn := filepath.Join(g.dir, fmt.Sprintf("save-%d", id), "x.fail")
	err := rapid.VerifSaveFailFile(fn, ver, out, seed, ws)
	if err != nil {
		g.st.Skipped["save-error"]++
		return
	}
	file, err := os.ReadFile(fn)
	if err != nil {
		die("read back %s: %v", fn, err)
	}
	// nothing else may remain in the directory
	ents, _ := os.ReadDir(filepath.Dir(fn))
	if len(ents) != 1 {
		g.st.RoundtripFails = append(g.st.RoundtripFails, persistFail{id, class, fmt.Sprintf("saveFailFile left %d entries in the directory", len(ents)), ""})
	}
	v2, s2, w2, lerr := rapid.VerifLoadFailFile(fn)
	_ = os.RemoveAll(filepath.Dir(fn))
	if lerr != nil {
		g.st.LoadResults[persistErrClass(lerr)]++
	} else {
		g.st.LoadResults["ok"]++
	}
	if ml := maxLineLen(out); ml > g.st.MaxLine {
		g.st.MaxLine = ml
	}
	g.st.TotalBytes += len(out)
	if persistVersionOK(ver) && (lerr != nil || v2 != ver || s2 != seed || !sameWords(w2, ws)) {
		what := "load(save(x)) != x"
		if lerr != nil {
			what = "saved fail file does not load: " + lerr.Error()
			if len(what) > 200 {
				what = what[:200]
			}
		}
		g.st.RoundtripFails = append(g.st.RoundtripFails, persistFail{id, class, what,
			fmt.Sprintf("/verif/build/harness persist-roundtrip -version %q -seed %d -words %d -outlen %d -maxline %d", ver, seed, len(ws), len(out), maxLineLen(out))})
	}
	g.emit(class, fmt.Sprintf("CSave %d %s %s %d %s\n    %s %s", id, persistBexp([]byte(ver)), persistBexp(out), seed, persistNList(ws),
		persistBexp(file), persistLres(v2, s2, w2, lerr)), len(out)+len(ws) > 0)
}

func (g *persistGen) loadCaseExpr(class string, content []byte, expr string) {
	id := g.nextID()
	fn := filepath.Join(g.dir, fmt.Sprintf("load-%d.fail", id))
	if err := os.WriteFile(fn, content, 0644); err != nil {
		die("%v", err)
	}
	var v string
	var s uint64
	var w []uint64
	var err error
	func() {
		defer func() {
			if r := recover(); r != nil {
				// loadFailFile must return an error, never panic: a concrete C17 failure (the bytes are the replay)
				err = fmt.Errorf("PANIC: %v", r)
				g.st.LoadPanics = append(g.st.LoadPanics, persistFail{id, class, fmt.Sprintf("loadFailFile panics on a %d-byte file: %v", len(content), r),
					fmt.Sprintf("file content (quoted): %q", string(content))})
			}
		}()
		v, s, w, err = rapid.VerifLoadFailFile(fn)
	}()
	_ = os.Remove(fn)
	if err != nil {
		g.st.LoadResults[persistErrClass(err)]++
	} else {
		g.st.LoadResults["ok"]++
	}
	g.st.TotalBytes += len(content)
	g.emit(class, fmt.Sprintf("CLoad %d %s %s", id, expr, persistLres(v, s, w, err)), len(content) > 0)
}

func (g *persistGen) loadCase(class string, content []byte) {
	g.loadCaseExpr(class, content, persistBexp(content))
}

var persistNumberZoo = []string{
	"", "0", "00", "000", "1", "7", "8", "9", "10", "007", "08", "09", "0x", "0X", "0b", "0B", "0o", "0O", "0x0", "0X0", "0b0", "0o0",
	"0x1f", "0X1F", "0x1F", "0XaB", "0xg", "0b102", "0b101", "0B11", "0o17", "0O17", "0o8", "017", "018", "0_7", "0_", "_0", "_", "__",
	"1_000", "1__000", "1_", "_1", "0x_1", "0x1_", "0x_", "0x__1", "0x1__2", "0b_1", "0o_7", "0_1_2", "1_0x1", "0x1_f_f",
	"+1", "-1", "+0", "-0", "+", "-", "+0x1", "-0x1", " 1", "1 ", "1.0", "1e3", "0x1p3", "1e", "e1", "0e0",
	"18446744073709551615", "18446744073709551616", "18446744073709551614", "99999999999999999999", "184467440737095516150",
	"0xffffffffffffffff", "0x10000000000000000", "0xFFFFFFFFFFFFFFFF", "0x0ffffffffffffffff", "0x00000000000000000001",
	"01777777777777777777777", "02000000000000000000000", "0o1777777777777777777777", "0o2000000000000000000000",
	"0b1111111111111111111111111111111111111111111111111111111111111111", "0b10000000000000000000000000000000000000000000000000000000000000000",
	"1844674407370955161_5", "0x_ffff_ffff_ffff_ffff", "0x1_0000_0000_0000_0000",
	"a", "z", "A", "Z", "0xz", "0xG", "@", "`", "{", "[", "/", ":", "\x00", "1\x00", "\xff", "1\xff", "\u0661", "0x\u0661", "１", "٣",
	"0x1f\r", "1\n", "0 x1", "0x 1", "0X_a_B", "0b_", "0o_", "0b2", "0o9", "0b", "0x1g", "1_2_3_4", "_1_", "0__1", "00_1", "0_0",
}

func (g *persistGen) numberToken() string {
	switch g.r.intn(6) {
	case 0, 1:
		return pick(g.r, persistNumberZoo...)
	case 2:
		return fmt.Sprintf("0x%x", g.word())
	case 3:
		return fmt.Sprintf("%d", g.word())
	case 4:
		// random token over the number alphabet
		const alpha = "0123456789abcdefxXbBoO_+-"
		n := 1 + g.r.intn(8)
		b := make([]byte, n)
		for i := range b {
			b[i] = alpha[g.r.intn(len(alpha))]
		}
		return string(b)
	default:
		// mutate a zoo entry
		s := []byte(pick(g.r, persistNumberZoo...))
		if len(s) > 0 {
			s[g.r.intn(len(s))] = "0189afxob_"[g.r.intn(10)]
		}
		return string(s)
	}
}

func (g *persistGen) validFile() []byte {
	out, _ := g.output()
	if len(out) > 60 {
		out = out[:60]
	}
	fn := filepath.Join(g.dir, "valid", "x.fail")
	ws := g.words()
	if len(ws) > 6 {
		ws = ws[:6]
	}
	if err := rapid.VerifSaveFailFile(fn, rapid.VerifRapidVersion(), out, g.word(), ws); err != nil {
		die("save: %v", err)
	}
	b, err := os.ReadFile(fn)
	if err != nil {
		die("%v", err)
	}
	_ = os.RemoveAll(filepath.Dir(fn))
	return b
}

func (g *persistGen) malformed() {
	switch g.r.intn(22) {
	case 0:
		g.loadCase("load:random-bytes", g.randBytes(g.r.intn(200)))
	case 1:
		g.loadCase("load:hostile-text", g.hostileText(g.r.intn(120)))
	case 2, 3:
		// byte flips of a valid file
		base := g.validFile()
		expr := persistBexp(base)
		for k := 0; k < 6; k++ {
			pos := g.r.intn(len(base))
			v := byte(g.r.next())
			if g.r.chance(50) {
				v = pick(g.r, byte('#'), byte('\n'), byte('\r'), byte(' '), byte('_'), byte('x'), byte('0'), byte('9'), byte('g'), byte(0), byte(0xc2), byte(0x85))
			}
			mut := append([]byte(nil), base...)
			mut[pos] = v
			g.loadCaseExpr("load:byte-flip", mut, fmt.Sprintf("(BSet %d %d %s)", pos, v, expr))
		}
	case 4:
		// truncation at every offset of a small valid file
		base := g.validFile()
		if len(base) > 60 {
			base = base[len(base)-60:]
		}
		expr := persistBexp(base)
		for k := 0; k <= len(base); k++ {
			g.loadCaseExpr("load:truncation", base[:k], fmt.Sprintf("(BTake %d %s)", k, expr))
		}
	case 5:
		// line deletion / duplication / swap
		lines := bytes.SplitAfter(g.validFile(), []byte("\n"))
		i := g.r.intn(len(lines))
		var mut [][]byte
		what := ""
		switch g.r.intn(3) {
		case 0:
			mut = append(append(mut, lines[:i]...), lines[i+1:]...)
			what = "load:line-deleted"
		case 1:
			mut = append(append(append(mut, lines[:i+1]...), lines[i]), lines[i+1:]...)
			what = "load:line-duplicated"
		default:
			j := g.r.intn(len(lines))
			mut = append(mut, lines...)
			mut[i], mut[j] = mut[j], mut[i]
			what = "load:lines-swapped"
		}
		g.loadCase(what, bytes.Join(mut, nil))
	case 6, 7, 16, 17, 18, 19:
		// number zoo in seed and word position
		var b []byte
		b = append(b, "# c\n"...)
		b = append(b, rapid.VerifRapidVersion()...)
		b = append(b, '#')
		if g.r.chance(50) {
			b = append(b, g.numberToken()...)
		} else {
			b = append(b, "42"...)
		}
		for i, n := 0, g.r.intn(4); i < n; i++ {
			b = append(b, '\n')
			if g.r.chance(70) {
				b = append(b, g.numberToken()...)
			} else {
				b = append(b, fmt.Sprintf("0x%x", g.word())...)
			}
		}
		g.loadCase("load:number-zoo", b)
	case 8, 21:
		g.loadCase("load:fields", []byte(pick(g.r, "v0.4.8", "v0.4.8#", "v0.4.8#1#2", "v0.4.8##1", "#1", "v#1", "v0.4.8#1\n#\n0x1", "a#b#c", "v0.4.8 # 1", "v0.4.8# 1", "v0.4.8 #1",
			"v0.4.8#1 0x2", "v0.4.8#1\n0x1 0x2", "v0.4.8#1\n\n\n0x1\n\n", "v0.4.8#1\n0x1\n", "v0.4.8#1\n0x1\n\n", "\n\nv0.4.8#1", "x#0", "v0.4.8#0x10", "v0.4.8#010", "v0.4.8#1_0")))
	case 9:
		// CRLF and lone CR
		base := g.validFile()
		var b []byte
		switch g.r.intn(3) {
		case 0:
			b = bytes.ReplaceAll(base, []byte("\n"), []byte("\r\n"))
		case 1:
			b = bytes.ReplaceAll(base, []byte("\n"), []byte("\r"))
		default:
			b = append(append([]byte(nil), base...), '\r')
		}
		g.loadCase("load:crlf", b)
	case 10, 20:
		// unicode spaces and near-spaces around tokens
		var b []byte
		tok := func(s string) {
			for i, n := 0, g.r.intn(3); i < n; i++ {
				b = append(b, pick(g.r, append(persistSpaces[:2:2], persistSpaces[5:]...)...)...)
			}
			if g.r.chance(15) {
				b = append(b, pick(g.r, persistNearSpaces...)...)
			}
			b = append(b, s...)
			for i, n := 0, g.r.intn(3); i < n; i++ {
				b = append(b, pick(g.r, append(persistSpaces[:2:2], persistSpaces[5:]...)...)...)
			}
			if g.r.chance(10) {
				b = append(b, pick(g.r, persistNearSpaces...)...)
			}
			b = append(b, '\n')
		}
		tok("# comment")
		tok("v0.4.8#7")
		tok("0x1f")
		tok("12")
		g.loadCase("load:unicode-spaces", b)
	case 11:
		// NUL bytes
		base := g.validFile()
		pos := g.r.intn(len(base) + 1)
		b := append(append(append([]byte(nil), base[:pos]...), 0), base[pos:]...)
		g.loadCase("load:nul", b)
	case 12:
		g.loadCase("load:no-data", []byte(pick(g.r, "", "\n", "#", "# only a comment", "# a\n# b\n", "   \n\t\n", "\r\n\r\n", "\u00a0\n\u3000", " # indented comment\n", "\u2003#x")))
	case 13:
		// data before/after comments, comment in the middle, indented data
		g.loadCase("load:layout", []byte(pick(g.r, "v0.4.8#1\n# c\n0x1", "  v0.4.8#1  \n\t0x1\t", "v0.4.8#1\n0x1\n# trailing", "# a\n\n# b\nv0.4.9#2\n0X2", "v0.4.8#1\n0x1#2", "v0.4.8#1\n0x1 # c")))
	case 14:
		// wrong version, otherwise valid
		g.loadCase("load:other-version", []byte(pick(g.r, "v0.4.7#1\n0x1", "v0.4.80#1", "V0.4.8#1", "\ufeffv0.4.8#1", "v0.4.8\u200b#1", "0.4.8#1", "v0.4.8\x00#1")))
	default:
		g.loadCase("load:mixed", append(g.hostileText(g.r.intn(40)), g.validFile()...))
	}
}

func (g *persistGen) libCase() {
	switch g.r.intn(3) {
	case 0:
		s := g.numberToken()
		base := pick(g.r, 0, 0, 10)
		v, err := strconv.ParseUint(s, base, 64)
		res := fmt.Sprintf("(POk %d)", v)
		cls := "ok"
		if err != nil {
			switch {
			case errors.Is(err, strconv.ErrRange):
				res, cls = "(PErr PRange)", "range"
			case errors.Is(err, strconv.ErrSyntax):
				res, cls = "(PErr PSyntax)", "syntax"
			default:
				die("unexpected ParseUint error %v", err)
			}
		}
		g.st.ParseResults[fmt.Sprintf("base%d:%s", base, cls)]++
		g.emit("lib:ParseUint", fmt.Sprintf("CParse %d %d %s %s", g.nextID(), base, persistBexp([]byte(s)), res), len(s) > 0)
	case 1:
		var b []byte
		for i, n := 0, g.r.intn(8); i < n; i++ {
			switch g.r.intn(4) {
			case 0, 1:
				b = append(b, pick(g.r, persistSpaces...)...)
			case 2:
				b = append(b, pick(g.r, persistNearSpaces...)...)
			default:
				b = append(b, byte('a'+g.r.intn(3)))
			}
		}
		g.emit("lib:TrimSpace", fmt.Sprintf("CTrim %d %s %s", g.nextID(), persistBexp(b), persistBexp([]byte(strings.TrimSpace(string(b))))), len(b) > 0)
	default:
		var b []byte
		for i, n := 0, g.r.intn(12); i < n; i++ {
			b = append(b, pick(g.r, "\n", "\n", "\r", "\r\n", "a", "b ", "#", "")...)
		}
		sc := bufio.NewScanner(bytes.NewReader(b))
		sc.Buffer(nil, math.MaxInt)
		var toks []string
		for sc.Scan() {
			toks = append(toks, persistBexp([]byte(sc.Text())))
		}
		g.emit("lib:ScanLines", fmt.Sprintf("CScan %d %s [%s]", g.nextID(), persistBexp(b), strings.Join(toks, "; ")), len(b) > 0)
	}
}

// long lines: around bufio.Scanner's default 64 KiB token limit, and far beyond
func (g *persistGen) longCases(n int) {
	sizes := []int{65533, 65534, 65535, 65536, 70000, 131072, 1 << 20}
	for i := 0; i < n; i++ {
		sz := sizes[i%len(sizes)]
		var out []byte
		class := fmt.Sprintf("out:long-line-%d", sz)
		switch i % 3 {
		case 0:
			out = bytes.Repeat([]byte{byte('a' + g.r.intn(26))}, sz)
		case 1:
			out = append(append([]byte("first\n"), bytes.Repeat([]byte{byte('A' + g.r.intn(26))}, sz)...), "\nlast"...)
		default:
			// two long runs in one line, with a hostile byte between
			out = append(append(bytes.Repeat([]byte{'x'}, sz/2), pick(g.r, byte('#'), byte('\r'), byte(0), byte(0xff), byte(' '))), bytes.Repeat([]byte{'y'}, sz-sz/2-1)...)
		}
		g.saveCase(class, rapid.VerifRapidVersion(), out, g.word(), g.words())
	}
	// long data lines in hand-made files
	g.loadCase("load:long-number", append([]byte("v0.4.8#1\n0x"), append(bytes.Repeat([]byte{'0'}, 70000), '1')...))
	g.loadCase("load:long-number", append([]byte("v0.4.8#1\n"), bytes.Repeat([]byte{'1'}, 66000)...))
	g.loadCase("load:long-version", append(bytes.Repeat([]byte{'v'}, 70000), "#1\n0x2"...))
	g.loadCase("load:long-spaces", append(append(bytes.Repeat([]byte{' '}, 70000), "v0.4.8#1"...), bytes.Repeat([]byte{'\t'}, 66000)...))
}

// ------------------------------------------------------------------------------------------------
// names

var persistNameAtoms = []string{
	"a", "Z", "q", "0", "9", "-", "_", "/", "\\", ".", "..", " ", "*", "?", "[", "]", "{", "}", "~", "#", "%", ":", "|", "<", ">", "\"", "'", "\n", "\t", "\x00",
	"\u00e9", "\u00df", "\u03a9", "\u03c9", "\u0416", "\u0436", "\u4e16", "\u754c", "\u3042", "\u0627", "\u05d0", "\u0905", "\u0e01", "\uac00", "\U00010400", "\U0001d400",
	"\u0663", "\u096b", "\uff15", "\U0001d7d8", // digits of other scripts (Nd)
	"\u00b9", "\u00b2", "\u00b3", "\u00bd", "\u2460", "\u2167", // No / Nl: not IsDigit; U+2167 is Nl (not a letter either)
	"\u0301", "\u0308", "\u20e3", "\u200d", "\ufe0f", // combining marks, joiners
	"\U0001f600", "\u2603", "\u00a0", "\u3000", "\ufeff", "\ufffd",
	"\xff", "\xc3", "\xe2\x82", "\xed\xa0\x80", "\xf4\x90\x80\x80", "\xc0\xaf", // invalid UTF-8
	"\u0131", "\u017f", "\u212a", "\u01c5", "\u1e9e", // case-mapping oddities (dotless i, long s, Kelvin, titlecase, capital sharp s)
}

var persistReservedish = []string{"CON", "con", "Con", "cOn", "PRN", "prn", "AUX", "aux", "NUL", "nul", "COM0", "com1", "Com9", "COM\u00b9", "com\u00b2", "LPT0", "lpt1", "LPT9", "lpt\u00b3",
	"CON_", "CON.", "CON.txt", "CONS", "CO", "COM", "COM10", "LPT", "NUL/", "/CON", "c\u00f6n", "\u0441on", "co\u0274", "COM\u0661", "\u017fon", "a\u0131x", "AU\u03a7"}

// tmpDerivedNames: test names read off the temporary-file pattern the code uses right now - every prefix of it
// that ends before a '-' (with and without a leading dot).  If some test name makes the fail-file glob match a
// temporary file, it is one of these.
func tmpDerivedNames() []string {
	pat := strings.TrimSuffix(rapid.VerifFailfileTmpPattern(), ".fail")
	pat = strings.TrimRight(pat, "*")
	var out []string
	for _, base := range []string{pat, strings.TrimLeft(pat, ".")} {
		for i, c := range base {
			if c == '-' && i > 0 {
				out = append(out, base[:i])
			}
		}
		out = append(out, strings.TrimRight(base, "-"))
	}
	return out
}

func (g *persistGen) testName() (string, string) {
	if g.r.chance(12) {
		return pick(g.r, tmpDerivedNames()...), "name:derived-from-tmp-pattern"
	}
	switch g.r.intn(10) {
	case 0:
		return pick(g.r, persistReservedish...), "name:reserved-ish"
	case 1:
		return pick(g.r, "", "a/b", "TestFoo/sub_test/#01", "Test/*?[", "../../etc/passwd", "a b", ".", "..", "-", "_", "*", "x*y", "[a-z]", "a\\b", "\\", "C:\\x", ".rapid-failfile-tmp-1", "x.fail", "-*.fail"), "name:special"
	case 2:
		return strings.Repeat(pick(g.r, "a", "\u4e16", "/"), 20+g.r.intn(60)), "name:long"
	case 3:
		return "Test" + pick(g.r, "Alpha", "Beta", "Sorted", "Parse") + fmt.Sprintf("/case_%d", g.r.intn(100)), "name:ordinary"
	default:
		var b []byte
		for i, n := 0, 1+g.r.intn(10); i < n; i++ {
			b = append(b, pick(g.r, persistNameAtoms...)...)
		}
		return string(b), "name:atoms"
	}
}

func (g *persistGen) nameCases(name, class string) {
	ksf := rapid.VerifKindaSafeFilename(name)
	g.emit(class, fmt.Sprintf("CSan %d %s %s", g.nextID(), persistRunes(name), persistRunes(ksf)), len(name) > 0)

	dir, file := rapid.VerifFailFileName(name)
	pattern := rapid.VerifFailFilePattern(name)
	base := filepath.Base(file)
	// base = <ksf>-<ts>-<pid>.fail
	rest := strings.TrimSuffix(strings.TrimPrefix(base, ksf+"-"), ".fail")
	cut := strings.LastIndex(rest, "-")
	if !strings.HasPrefix(base, ksf+"-") || !strings.HasSuffix(base, ".fail") || cut < 0 {
		g.st.NameFails = append(g.st.NameFails, persistFail{g.id, class, fmt.Sprintf("fail file name %q has an unexpected shape", base), fmt.Sprintf("name=%q", name)})
		return
	}
	ts, pid := rest[:cut], rest[cut+1:]
	g.emit("path", fmt.Sprintf("CPath %d %s %s %s\n    %s %s %s", g.nextID(), persistRunes(name), persistRunes(ts), persistRunes(pid),
		persistRunes(dir), persistRunes(file), persistRunes(pattern)), len(name) > 0)

	// direct oracle for C06_name / C16_tmp_disjoint on the real functions
	if ok, err := filepath.Match(pattern, file); err != nil || !ok {
		g.st.NameFails = append(g.st.NameFails, persistFail{g.id, class, fmt.Sprintf("failFilePattern %q does not match failFileName %q (%v)", pattern, file, err), fmt.Sprintf("name=%q", name)})
	}
	for _, r := range ksf {
		if !(unicode.IsLetter(r) || unicode.IsDigit(r) || r == '-' || r == '_') {
			g.st.NameFails = append(g.st.NameFails, persistFail{g.id, class, fmt.Sprintf("kindaSafeFilename(%q) contains %q", name, r), fmt.Sprintf("name=%q", name)})
			break
		}
	}

	// Glob in a real directory: the fail file, a CreateTemp file, decoys
	if len(ksf) > 200 || len(base) > 250 {
		g.st.Skipped["glob:name-too-long"]++
		return
	}
	root := filepath.Join(g.dir, fmt.Sprintf("glob-%d", g.id))
	full := filepath.Join(root, dir)
	if err := os.MkdirAll(full, 0775); err != nil {
		g.st.Skipped["glob:mkdir-failed"]++
		return
	}
	defer os.RemoveAll(root)
	touch := func(n string) {
		if n == "" || strings.ContainsAny(n, "/\x00") || len(n) > 255 {
			return
		}
		_ = os.WriteFile(filepath.Join(full, n), []byte("x"), 0644)
	}
	touch(base)
	tmp, err := os.CreateTemp(full, rapid.VerifFailfileTmpPattern())
	if err != nil {
		die("CreateTemp: %v", err)
	}
	tmp.Close()
	for _, d := range []string{ksf + "-.fail", ksf + ".fail", ksf + "-1", ksf + "-1.fail", "x" + ksf + "-1-2.fail", ksf + "_-1-2.fail", ksf + "-1-2.fail.tmp", ksf + "-1-2.failx",
		"-1-2.fail", ".fail", "other-1-2.fail", ksf + "-20260930120000-1.fail", strings.ToLower(ksf) + "-1-2.fail", strings.ToUpper(ksf) + "-3-4.fail", ".rapid-failfile-tmp-77", ksf + "-*.fail", ksf} {
		if g.r.chance(60) {
			touch(d)
		}
	}
	ents, err := os.ReadDir(full)
	if err != nil {
		die("%v", err)
	}
	var listing []string
	for _, e := range ents {
		listing = append(listing, persistRunes(e.Name()))
	}
	cwd, _ := os.Getwd()
	if err := os.Chdir(root); err != nil {
		die("%v", err)
	}
	matches, gerr := filepath.Glob(pattern)
	_ = os.Chdir(cwd)
	if gerr != nil {
		g.st.NameFails = append(g.st.NameFails, persistFail{g.id, class, fmt.Sprintf("filepath.Glob(%q): %v", pattern, gerr), fmt.Sprintf("name=%q", name)})
		return
	}
	var found []string
	sawReal, sawTmp := false, false
	for _, m := range matches {
		b := filepath.Base(m)
		found = append(found, persistRunes(b))
		if b == base {
			sawReal = true
		}
		if b == filepath.Base(tmp.Name()) {
			sawTmp = true
		}
	}
	if !sawReal || sawTmp {
		g.st.NameFails = append(g.st.NameFails, persistFail{g.id, class, fmt.Sprintf("Glob(%q): fail file found=%v, temporary file found=%v", pattern, sawReal, sawTmp), fmt.Sprintf("name=%q", name)})
	}
	g.emit("glob", fmt.Sprintf("CGlob %d %s\n    [%s]\n    [%s]", g.nextID(), persistRunes(name), strings.Join(listing, "; "), strings.Join(found, "; ")), len(name) > 0)
}

func (g *persistGen) matchCase() {
	const alpha = "ab*/.-*a"
	mk := func(n int, stars bool) string {
		b := make([]byte, n)
		for i := range b {
			c := alpha[g.r.intn(len(alpha))]
			if c == '*' && !stars {
				c = 'a'
			}
			b[i] = c
		}
		return string(b)
	}
	pat := mk(g.r.intn(7), true)
	name := mk(g.r.intn(8), false)
	if g.r.chance(30) {
		// a name that matches by construction
		name = strings.ReplaceAll(pat, "*", pick(g.r, "", "a", "ab", "b.-"))
	}
	ok, err := filepath.Match(pat, name)
	if err != nil {
		return
	}
	r := "false"
	if ok {
		r = "true"
	}
	g.emit("lib:Match", fmt.Sprintf("CMatch %d %s %s %s", g.nextID(), persistRunes(pat), persistRunes(name), r), len(pat) > 0)
}

// ------------------------------------------------------------------------------------------------

func cmdPersistCases(args []string) {
	fs := flag.NewFlagSet("persist-cases", flag.ExitOnError)
	n := fs.Int("n", 200, "number of generated inputs (several cases each for some classes)")
	seed := fs.Uint64("seed", 1, "generator seed")
	out := fs.String("out", "", "output .v file")
	name := fs.String("name", "pcases", "Coq definition name")
	classes := fs.String("classes", "save,load,lib,names", "comma-separated: save, load, lib, names, long")
	nlong := fs.Int("long", 7, "number of long-line save cases when class long is selected")
	_ = fs.Parse(args)
	if *out == "" {
		die("-out is required")
	}
	dir, err := os.MkdirTemp("", "verif-persist-cases-")
	if err != nil {
		die("%v", err)
	}
	defer os.RemoveAll(dir)
	g := &persistGen{r: &Rng{s: *seed*7919 + 17}, dir: dir, first: true, seed: *seed, seen: map[uint64]bool{}}
	g.st = persistStats{Classes: map[string]int{}, LoadResults: map[string]int{}, ParseResults: map[string]int{}, Skipped: map[string]int{}}
	want := map[string]bool{}
	for _, c := range strings.Split(*classes, ",") {
		want[strings.TrimSpace(c)] = true
	}

	fmt.Fprintf(&g.b, "(* GENERATED by /verif/harness persist-cases -seed %d -n %d -classes %s *)\n", *seed, *n, *classes)
	g.b.WriteString(persistCaseHeader)
	var ld, up [][2]int
	if want["names"] {
		ld, up = persistLDRanges(), persistUpperTable()
		g.st.LDRanges, g.st.UpperPairs = len(ld), len(up)
		fmt.Fprintf(&g.b, "Definition %s_ld : list (N * N) :=\n  %s.\n", *name, persistPairs(ld))
		fmt.Fprintf(&g.b, "Definition %s_up : list (N * N) :=\n  %s.\n", *name, persistPairs(up))
	} else {
		fmt.Fprintf(&g.b, "Definition %s_ld : list (N * N) := unicode_ld_ranges.\nDefinition %s_up : list (N * N) := unicode_upper_pairs.\n", *name, *name)
	}
	fmt.Fprintf(&g.b, "Definition %s : list pcase := [\n", *name)
	var kinds []string
	for _, k := range []string{"save", "load", "lib", "names"} {
		if want[k] {
			kinds = append(kinds, k)
		}
	}
	for i := 0; i < *n && len(kinds) > 0; i++ {
		switch kinds[i%len(kinds)] {
		case "save":
			ver, vc := g.version()
			o, oc := g.output()
			g.st.Classes[vc]++
			g.saveCase(oc, ver, o, g.word(), g.words())
		case "load":
			g.malformed()
		case "lib":
			g.libCase()
			if g.r.chance(50) {
				g.matchCase()
			}
		case "names":
			nm, c := g.testName()
			g.nameCases(nm, c)
		}
	}
	if want["long"] {
		g.longCases(*nlong)
	}
	g.b.WriteString("].\n")
	// the tables of the case file must be the generated ones, agree with ASCII below 128, and keep the
	// glob metacharacters, the separators and '.' out of the safe class; id 0 reports a table problem
	fmt.Fprintf(&g.b, "Definition %s_tables_ok : bool := Eval vm_compute in\n  (ranges_eqb %s_ld unicode_ld_ranges && ranges_eqb %s_up unicode_upper_pairs && ascii_agrees %s_ld).\n", *name, *name, *name, *name)
	fmt.Fprintf(&g.b, "Definition %s_M : list N := Eval vm_compute in\n  ((if %s_tables_ok then [] else [0]) ++ mismatches %s_ld %s_up %s).\nPrint %s_M.\n", *name, *name, *name, *name, *name, *name)
	if err := os.WriteFile(*out, []byte(g.b.String()), 0644); err != nil {
		die("%v", err)
	}
	js, _ := json.Marshal(g.st)
	fmt.Println(string(js))
}

// persist-roundtrip: replay of one round-trip failure class (output with one line of the given length)
func cmdPersistRoundtrip(args []string) {
	fs := flag.NewFlagSet("persist-roundtrip", flag.ExitOnError)
	ver := fs.String("version", rapid.VerifRapidVersion(), "version string")
	seed := fs.Uint64("seed", 1, "seed")
	nw := fs.Int("words", 3, "number of words")
	outlen := fs.Int("outlen", 0, "total output length")
	maxline := fs.Int("maxline", 0, "length of the longest output line")
	_ = fs.Parse(args)
	dir, err := os.MkdirTemp("", "verif-persist-rt-")
	if err != nil {
		die("%v", err)
	}
	defer os.RemoveAll(dir)
	out := bytes.Repeat([]byte{'x'}, *maxline)
	for len(out) < *outlen {
		out = append(out, '\n', 'y')
	}
	ws := make([]uint64, *nw)
	for i := range ws {
		ws[i] = uint64(i) * 0x0123456789abcdef
	}
	fn := filepath.Join(dir, "testdata", "rapid", "T", "T-1-2.fail")
	if err := rapid.VerifSaveFailFile(fn, *ver, out, *seed, ws); err != nil {
		fmt.Printf("{\"ok\": false, \"what\": %q}\n", "save: "+err.Error())
		os.Exit(1)
	}
	v, s, w, err := rapid.VerifLoadFailFile(fn)
	if err != nil || v != *ver || s != *seed || !sameWords(w, ws) {
		what := "load(save(x)) != x"
		if err != nil {
			what = err.Error()
			if len(what) > 300 {
				what = what[:300]
			}
		}
		fmt.Printf("{\"ok\": false, \"what\": %q}\n", what)
		os.Exit(1)
	}
	fmt.Println("{\"ok\": true}")
}

var _ = sort.Strings
var _ = utf8.RuneError

func init() {
	register("persist-cases", cmdPersistCases)
	register("persist-roundtrip", cmdPersistRoundtrip)
}
