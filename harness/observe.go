package main

// Canonical observations of the implementation, printed as Coq terms of coq/Model/Corr.v.

import (
	"fmt"
	"os"
	"regexp"
	"strconv"
	"strings"

	"pgregory.net/rapid"
)

var (
	reTramp  = regexp.MustCompile(`main\.tramp(\d+)`)
	reRepeat = regexp.MustCompile(`statemachine\.go:(\d+) in pgregory\.net/rapid\.\(\*T\)\.Repeat`)
	reUser   = regexp.MustCompile(`^m(\d+)$`)
	// line numbers of the two failOnError calls in (*T).Repeat, learnt by calibration
	repeatInitLine, repeatCheckLine int
)

func canonMsg(kind, msg string) string {
	if kind == "invalid" {
		msg = strings.TrimPrefix(msg, "invalid data: ")
	}
	if m := reUser.FindStringSubmatch(msg); m != nil {
		return "(MUser " + m[1] + ")"
	}
	switch {
	case msg == "(*T).FailNow() called":
		return "MFailNow"
	case msg == "(*T).Fail() called":
		return "MFail"
	case msg == "(*T).SkipNow() called":
		return "MSkipNow"
	case msg == "overrun":
		return "MOverrun"
	case strings.HasPrefix(msg, "failed to find suitable value in"):
		return "MFindFailed"
	case msg == "too many rejections in repeat":
		return "MTooManyRej"
	case msg == "can't find a valid (non-skipped) action":
		return "MNoValidActions"
	case strings.HasPrefix(msg, "group did not use any data"):
		return "MGroupNoData"
	case msg == "assertion failed" || strings.HasPrefix(msg, "invalid range"):
		return "MAssert"
	case strings.Contains(msg, "nil pointer dereference"):
		return "(MUser 777000001)"
	}
	return "(MUser 999999999)"
}

// canonSite reads class and node id off a traceback: the innermost frames decide the class, the
// innermost trampoline names the node
func canonSite(e rapid.VerifError) (string, int) {
	tb := e.Traceback
	id := 0
	if m := reTramp.FindStringSubmatch(tb); m != nil {
		id, _ = strconv.Atoi(m[1])
		// recursion depth above the innermost trampoline: frames of main.recurse that called itself
		rest := tb[strings.Index(tb, m[0]):]
		depth := 0
		for _, ln := range strings.Split(rest, "\n")[1:] {
			if strings.Contains(ln, "main.(*Program).exec.func") {
				continue // the closure passed to recurse
			}
			if strings.HasSuffix(ln, "in main.recurse") {
				depth++
				continue
			}
			break
		}
		if depth > 0 {
			id += 100 * (depth - 1)
		}
	}
	m := canonMsg(e.Kind, e.Msg)
	lines := strings.Split(tb, "\n")
	first, second := "", ""
	if len(lines) > 0 {
		first = lines[0]
	}
	if len(lines) > 1 {
		second = lines[1]
	}
	switch {
	case tb == "    <non-fatal failure>\n":
		return "CLate", 0
	case m == "MGroupNoData" || m == "MAssert":
		return "CInt", 0
	case strings.Contains(first, "rapid.(*stateMachine).executeAction") && m == "MNoValidActions":
		return "CNV", id
	case strings.Contains(first, "rapid.(*T).failOnError"):
		switch {
		case strings.Contains(second, "rapid.runAction"):
			return "CRA", id
		case strings.Contains(second, "rapid.(*T).Repeat"):
			if mm := reRepeat.FindStringSubmatch(second); mm != nil {
				ln, _ := strconv.Atoi(mm[1])
				if ln == repeatInitLine {
					return "CRI", id
				}
				if ln == repeatCheckLine {
					return "CRC", id
				}
			}
			return "CRC", id
		case strings.Contains(second, "rapid.checkOnce"):
			return "CTop", 0
		case strings.Contains(second, "maybeValue"):
			return "CCF", 0
		}
		return "CUnknown", id
	}
	return "CU", id
}

func oresCoq(e rapid.VerifError) string {
	switch e.Kind {
	case "":
		return "ROk"
	case "invalid":
		return "(RInvalid " + canonMsg(e.Kind, e.Msg) + ")"
	}
	c, id := canonSite(e)
	k := "RStop"
	if e.Kind == "panic" {
		k = "RPanic"
	}
	return fmt.Sprintf("(%s %s %s %d)", k, canonMsg(e.Kind, e.Msg), c, id)
}

func groupsCoq(gs []rapid.VerifGroup) string {
	ss := make([]string, len(gs))
	for i, g := range gs {
		ss[i] = fmt.Sprintf("mkG (%d)%%Z (%d)%%Z %v %v", g.Begin, g.End, g.Standalone, g.Discard)
	}
	return "[" + strings.Join(ss, "; ") + "]"
}

func obsCoq(e rapid.VerifError, rec rapid.VerifRecording, pruned []uint64, events []string) string {
	return fmt.Sprintf("(mkObs %s %s %s %s [%s])", oresCoq(e), wordsCoq(rec.Data), groupsCoq(rec.Groups), wordsCoq(pruned), strings.Join(events, "; "))
}

// calibrate learns the line numbers of Repeat's two failOnError calls
func calibrate() {
	mkp := func(inCheckAfter bool) *Program {
		// state counts completed actions; the check fails non-fatally when state == (0 | 1)
		target := int64(0)
		if inCheckAfter {
			target = 1
		}
		chk := &Stmt{Op: "if", C: &Cond{Op: "eq", A: &VExp{Op: "var", I: 0}, B: &VExp{Op: "const", V: zv(target)}},
			A: &Stmt{Op: "fail", Kind: "error", Variant: "errorf", Id: 1, Msg: 1, Next: &Stmt{Op: "ret", E: &VExp{Op: "const", V: nil}}},
			B: &Stmt{Op: "ret", E: &VExp{Op: "const", V: nil}}}
		act := &Stmt{Op: "ret", E: &VExp{Op: "add", A: &VExp{Op: "var", I: 0}, B: &VExp{Op: "const", V: zv(1)}}}
		return NewProgram(&Stmt{Op: "repeat", Id: 2, E: &VExp{Op: "const", V: zv(0)}, A: chk, Acts: []*Stmt{act},
			Next: &Stmt{Op: "ret", E: &VExp{Op: "const", V: nil}}})
	}
	for _, after := range []bool{false, true} {
		p := mkp(after)
		run := NewRun()
		for seed := uint64(1); seed < 50; seed++ {
			e, _ := rapid.VerifRunSeed(nil, seed, false, p.Prop(&run))
			if mm := reRepeat.FindStringSubmatch(e.Traceback); mm != nil && strings.Contains(e.Traceback, "failOnError") {
				ln, _ := strconv.Atoi(mm[1])
				if after {
					repeatCheckLine = ln
				} else {
					repeatInitLine = ln
				}
				break
			}
		}
	}
	if repeatInitLine == 0 || repeatCheckLine == 0 || repeatInitLine == repeatCheckLine {
		// Repeat no longer has two distinguishable failOnError call sites (a refactoring can merge them): the two
		// model sites SRepeatInit / SRepeatCheck are then both reported as the check site; the correspondence will
		// say so, the oracles keep running
		fmt.Fprintf(os.Stderr, "calibration: Repeat's failOnError call sites not distinguishable (%d %d)\n", repeatInitLine, repeatCheckLine)
	}
}
