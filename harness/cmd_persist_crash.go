package main

// persist-crash (C16): saving a fail file is atomic with respect to crashes.
//
// (a) one uninterrupted saveFailFile per size class runs in a child process under strace; the system
//     calls that touch the target directory are projected out of the trace, compared in Go against the
//     expected shape (mkdir* < open(O_EXCL) < writes < close < rename < unlink, payload = file bytes)
//     and emitted as COps cases for Model/PersistCorr.v.
// (b) the same child is re-run once per kill point with strace's --inject=<syscall>:signal=SIGKILL:
//     when=<ordinal>; after every kill, whatever filepath.Glob(failFilePattern) finds must be a complete
//     fail file equal to the one of the uninterrupted run.
//
// strace counts injections per traced thread; the child therefore pins its main goroutine to the main
// thread, and the ordinal of a call is its ordinal among the calls of that name of that thread.  Every
// kill run is traced as well (without payloads), so the kill point actually hit is read off the trace
// instead of being assumed.

import (
	"bytes"
	"encoding/json"
	"flag"
	"fmt"
	"math"
	"os"
	"os/exec"
	"path/filepath"
	"regexp"
	"runtime"
	"sort"
	"strconv"
	"strings"
	"sync"
	"syscall"

	"pgregory.net/rapid"
)

func init() {
	if len(os.Args) > 1 && os.Args[1] == "persist-crash-child" {
		runtime.LockOSThread()
	}
	register("persist-crash-child", cmdCrashChild)
	register("persist-crash", cmdCrash)
}

var crashSizeClasses = []string{"empty", "line", "lines1000", "mib"}

var crashTestNames = []string{"TestCrash", "Тест/юникод", "a/b"}

const crashTraceSet = "mkdirat,mkdir,openat,open,write,close,renameat,renameat2,rename,unlinkat,unlink,rmdir"

// crashPayload builds (output, words) of a size class deterministically.
func crashPayload(size string, seed uint64, nwords int) ([]byte, []uint64, error) {
	r := &Rng{s: seed ^ 0x9e3779b97f4a7c15}
	fixed := []uint64{0, math.MaxUint64, r.next(), 1, r.next() >> 17, 1 << 63}
	ws := make([]uint64, nwords)
	for i := range ws {
		if i < len(fixed) {
			ws[i] = fixed[i]
		} else {
			ws[i] = r.next()
		}
	}
	var out []byte
	switch size {
	case "empty":
	case "line":
		out = []byte(fmt.Sprintf("[rapid] draw x: %d", seed%1000))
	case "lines1000":
		var b bytes.Buffer
		for i := 0; i < 1000; i++ {
			fmt.Fprintf(&b, "line %d of the output\n", i)
		}
		out = b.Bytes()
	case "mib":
		out = bytes.Repeat([]byte{'a'}, 1<<20)
	default:
		return nil, nil, fmt.Errorf("unknown size class %q", size)
	}
	return out, ws, nil
}

func cmdCrashChild(args []string) {
	fs := flag.NewFlagSet("persist-crash-child", flag.ExitOnError)
	file := fs.String("file", "", "final path of the fail file")
	ver := fs.String("version", rapid.VerifRapidVersion(), "version string")
	seed := fs.Uint64("seed", 1, "seed")
	nw := fs.Int("words", 5, "number of words")
	size := fs.String("size", "line", "size class")
	direct := fs.Bool("direct", false, "negative control: write the fail file in place, line by line, instead of calling saveFailFile")
	_ = fs.Parse(args)
	out, ws, err := crashPayload(*size, *seed, *nw)
	if err == nil && *file == "" {
		err = fmt.Errorf("-file is required")
	}
	if err == nil && *direct {
		err = crashSaveInPlace(*file, *ver, out, *seed, ws)
	} else if err == nil {
		err = rapid.VerifSaveFailFile(*file, *ver, out, *seed, ws)
	}
	if err != nil {
		fmt.Fprintln(os.Stderr, err)
		os.Exit(3)
	}
	os.Exit(0)
}

// crashSaveInPlace is what saveFailFile must not be: the same bytes, written to the final name directly.
// Only used as a negative control of the oracle (persist-crash -direct has to report violations).
func crashSaveInPlace(filename string, version string, output []byte, seed uint64, buf []uint64) error {
	if err := os.MkdirAll(filepath.Dir(filename), 0775); err != nil {
		return err
	}
	f, err := os.OpenFile(filename, os.O_RDWR|os.O_CREATE|os.O_EXCL, 0600)
	if err != nil {
		return err
	}
	defer f.Close()
	for _, s := range strings.Split(string(output), "\n") {
		if _, err := f.WriteString("# " + s + "\n"); err != nil {
			return err
		}
	}
	bs := []string{fmt.Sprintf("%v#%v", version, seed)}
	for _, u := range buf {
		bs = append(bs, fmt.Sprintf("0x%x", u))
	}
	for i, b := range bs {
		if i > 0 {
			b = "\n" + b
		}
		if _, err := f.WriteString(b); err != nil {
			return err
		}
	}
	return nil
}

// ------------------------------------------------------------------------------------------------
// strace output

type crashRaw struct {
	pid     int
	name    string
	args    []string
	ret     string // first token after " = "; "" while unfinished, "?" when the call never returned
	errno   string
	ordTid  int // ordinal (from 1) among the calls of this name by this thread, at syscall entry
	ordProc int // ordinal among the calls of this name by all threads
}

var crashLineRe = regexp.MustCompile(`^(\d+)\s+(.*)$`)
var crashResumedRe = regexp.MustCompile(`^<\.\.\. (\w+) resumed>\s?(.*)$`)

func crashSplitArgs(s string) []string {
	var out []string
	depth, inq, start := 0, false, 0
	for i := 0; i < len(s); i++ {
		c := s[i]
		switch {
		case c == '"':
			inq = !inq
		case inq:
		case c == '(' || c == '[' || c == '{':
			depth++
		case c == ')' || c == ']' || c == '}':
			depth--
		case c == ',' && depth == 0:
			out = append(out, strings.TrimSpace(s[start:i]))
			start = i + 1
		}
	}
	if t := strings.TrimSpace(s[start:]); t != "" || len(out) > 0 {
		out = append(out, t)
	}
	return out
}

// crashDecode decodes a -xx string argument ("\x41\x42" with an optional trailing ...).
func crashDecode(a string) ([]byte, bool, error) {
	truncated := strings.HasSuffix(a, "...")
	a = strings.TrimSuffix(a, "...")
	if len(a) < 2 || a[0] != '"' || a[len(a)-1] != '"' {
		return nil, false, fmt.Errorf("not a string argument: %.40q", a)
	}
	a = a[1 : len(a)-1]
	if len(a)%4 != 0 {
		return nil, false, fmt.Errorf("string argument is not \\xNN encoded: %.40q", a)
	}
	out := make([]byte, len(a)/4)
	hex := func(c byte) int {
		switch {
		case c >= '0' && c <= '9':
			return int(c - '0')
		case c >= 'a' && c <= 'f':
			return int(c-'a') + 10
		case c >= 'A' && c <= 'F':
			return int(c-'A') + 10
		}
		return -1
	}
	for i := range out {
		h, l := hex(a[4*i+2]), hex(a[4*i+3])
		if a[4*i] != '\\' || a[4*i+1] != 'x' || h < 0 || l < 0 {
			return nil, false, fmt.Errorf("string argument is not \\xNN encoded: %.40q", a[4*i:])
		}
		out[i] = byte(h<<4 | l)
	}
	return out, truncated, nil
}

func crashFinish(c *crashRaw, text string) error {
	open := strings.IndexByte(text, '(')
	if open < 0 {
		return fmt.Errorf("no '(' in %.80q", text)
	}
	c.name = text[:open]
	eq := strings.LastIndex(text, " = ")
	if eq < 0 {
		c.args = crashSplitArgs(strings.TrimSuffix(strings.TrimSpace(text[open+1:]), ")"))
		c.ret = "?"
		return nil
	}
	argtext := strings.TrimRight(text[open+1:eq], " ")
	argtext = strings.TrimSuffix(argtext, ")")
	c.args = crashSplitArgs(argtext)
	res := strings.Fields(text[eq+3:])
	if len(res) == 0 {
		return fmt.Errorf("no result in %.80q", text)
	}
	c.ret = res[0]
	if len(res) > 1 && strings.HasPrefix(res[1], "E") {
		c.errno = res[1]
	}
	return nil
}

// crashParseTrace reads a `strace -f -o` file; calls are returned in the order of their entry.  A call
// that was never resumed (the thread was killed inside it) has ret "?".
func crashParseTrace(path string) ([]*crashRaw, error) {
	data, err := os.ReadFile(path)
	if err != nil {
		return nil, err
	}
	var calls []*crashRaw
	type pend struct {
		c    *crashRaw
		text string
	}
	pending := map[int]*pend{}
	perTid := map[string]int{}
	perProc := map[string]int{}
	enter := func(pid int, name string) *crashRaw {
		perTid[fmt.Sprintf("%d/%s", pid, name)]++
		perProc[name]++
		c := &crashRaw{pid: pid, name: name, ordTid: perTid[fmt.Sprintf("%d/%s", pid, name)], ordProc: perProc[name]}
		calls = append(calls, c)
		return c
	}
	for _, lineb := range bytes.Split(data, []byte("\n")) {
		if len(lineb) == 0 {
			continue
		}
		line := string(lineb)
		m := crashLineRe.FindStringSubmatch(line)
		if m == nil {
			return nil, fmt.Errorf("unparsable trace line %.120q", line)
		}
		pid, _ := strconv.Atoi(m[1])
		rest := m[2]
		if strings.HasPrefix(rest, "+++") || strings.HasPrefix(rest, "---") {
			continue
		}
		if r := crashResumedRe.FindStringSubmatch(rest); r != nil {
			p := pending[pid]
			if p == nil || p.c.name != r[1] {
				return nil, fmt.Errorf("resumed without unfinished: %.120q", line)
			}
			delete(pending, pid)
			if err := crashFinish(p.c, p.text+r[2]); err != nil {
				return nil, err
			}
			continue
		}
		open := strings.IndexByte(rest, '(')
		if open < 0 {
			return nil, fmt.Errorf("unparsable trace line %.120q", line)
		}
		c := enter(pid, rest[:open])
		if strings.HasSuffix(rest, "<unfinished ...>") {
			pending[pid] = &pend{c, strings.TrimSuffix(rest, "<unfinished ...>")}
			c.ret = "?"
			continue
		}
		if err := crashFinish(c, rest); err != nil {
			return nil, err
		}
	}
	for _, p := range pending {
		// killed inside the call: keep what is known of the arguments
		_ = crashFinish(p.c, p.text)
		p.c.ret = "?"
	}
	return calls, nil
}

// ------------------------------------------------------------------------------------------------
// projection on the target directory

type crashCall struct {
	Kind    string // mkdir open write close rename unlink rmdir
	Sys     string
	Pid     int
	OrdTid  int
	OrdProc int
	Path    string
	Path2   string
	Flags   string
	Fd      int
	Data    []byte
	Count   int64
	Ret     string
	Errno   string
	Note    string
}

func (c *crashCall) done() bool { return c.Ret != "?" && c.Ret != "" }
func (c *crashCall) ok() bool   { return c.done() && !strings.HasPrefix(c.Ret, "-") }

func crashPathArg(args []string, i int) (string, error) {
	if i >= len(args) {
		return "", fmt.Errorf("missing argument %d", i)
	}
	b, _, err := crashDecode(args[i])
	return string(b), err
}

// crashProject keeps the calls that affect the target directory (or create its ancestors below root).
// decodeData: decode write payloads (the kill runs are traced with -s 0).
func crashProject(raw []*crashRaw, root, target string, decodeData bool) ([]*crashCall, []string) {
	var out []*crashCall
	var problems []string
	fd := -1
	bad := func(c *crashRaw, err error) {
		problems = append(problems, fmt.Sprintf("%s: %v", c.name, err))
	}
	mk := func(c *crashRaw, kind string) *crashCall {
		return &crashCall{Kind: kind, Sys: c.name, Pid: c.pid, OrdTid: c.ordTid, OrdProc: c.ordProc, Ret: c.ret, Errno: c.errno, Fd: -1}
	}
	abs := func(c *crashRaw, dirfd string, p string) (string, bool) {
		if filepath.IsAbs(p) {
			return filepath.Clean(p), true
		}
		if dirfd == "AT_FDCWD" || dirfd == "" {
			// the child is started with the scratch directory as its working directory
			return filepath.Join(root, p), true
		}
		return "", false
	}
	for _, c := range raw {
		switch c.name {
		case "mkdir", "mkdirat":
			i, dfd := 0, ""
			if c.name == "mkdirat" {
				i, dfd = 1, c.args[0]
			}
			p, err := crashPathArg(c.args, i)
			if err != nil {
				bad(c, err)
				continue
			}
			p, ok := abs(c, dfd, p)
			if !ok || !(p == root || strings.HasPrefix(p, root+"/")) || !(p == target || strings.HasPrefix(target, p+"/")) {
				continue
			}
			cc := mk(c, "mkdir")
			cc.Path = p
			out = append(out, cc)
		case "open", "openat":
			i, dfd := 0, ""
			if c.name == "openat" {
				i, dfd = 1, c.args[0]
			}
			p, err := crashPathArg(c.args, i)
			if err != nil {
				bad(c, err)
				continue
			}
			if i+1 >= len(c.args) {
				continue
			}
			flags := c.args[i+1]
			p, ok := abs(c, dfd, p)
			if !ok || filepath.Dir(p) != target || !strings.Contains(flags, "O_CREAT") {
				continue
			}
			cc := mk(c, "open")
			cc.Path, cc.Flags = p, flags
			if n, err := strconv.Atoi(c.ret); err == nil && n >= 0 {
				cc.Fd = n
				fd = n
			}
			out = append(out, cc)
		case "write":
			if fd < 0 || len(c.args) < 3 || c.args[0] != strconv.Itoa(fd) {
				continue
			}
			cc := mk(c, "write")
			cc.Fd = fd
			cc.Count, _ = strconv.ParseInt(c.args[2], 10, 64)
			if decodeData {
				b, trunc, err := crashDecode(c.args[1])
				if err != nil {
					bad(c, err)
				}
				if trunc {
					bad(c, fmt.Errorf("payload truncated by strace (-s too small)"))
				}
				if int64(len(b)) != cc.Count {
					bad(c, fmt.Errorf("payload has %d bytes, count argument is %d", len(b), cc.Count))
				}
				if n, err := strconv.ParseInt(c.ret, 10, 64); err == nil && n >= 0 && n < int64(len(b)) {
					cc.Note = fmt.Sprintf("short write: %d of %d", n, len(b))
					b = b[:n]
				}
				cc.Data = b
			}
			out = append(out, cc)
		case "close":
			if fd < 0 || len(c.args) < 1 || c.args[0] != strconv.Itoa(fd) {
				continue
			}
			cc := mk(c, "close")
			cc.Fd = fd
			if cc.done() {
				fd = -1
			}
			out = append(out, cc)
		case "rename", "renameat", "renameat2":
			var p1, p2 string
			var err1, err2 error
			d1, d2 := "", ""
			if c.name == "rename" {
				p1, err1 = crashPathArg(c.args, 0)
				p2, err2 = crashPathArg(c.args, 1)
			} else {
				if len(c.args) < 4 {
					continue
				}
				d1, d2 = c.args[0], c.args[2]
				p1, err1 = crashPathArg(c.args, 1)
				p2, err2 = crashPathArg(c.args, 3)
			}
			if err1 != nil || err2 != nil {
				bad(c, fmt.Errorf("%v %v", err1, err2))
				continue
			}
			p1, ok1 := abs(c, d1, p1)
			p2, ok2 := abs(c, d2, p2)
			if !ok1 || !ok2 || (filepath.Dir(p1) != target && filepath.Dir(p2) != target) {
				continue
			}
			cc := mk(c, "rename")
			cc.Path, cc.Path2 = p1, p2
			if filepath.Dir(p1) != target || filepath.Dir(p2) != target {
				cc.Note = "rename across directories"
			}
			out = append(out, cc)
		case "unlink", "unlinkat", "rmdir":
			i, dfd := 0, ""
			if c.name == "unlinkat" {
				i, dfd = 1, c.args[0]
			}
			p, err := crashPathArg(c.args, i)
			if err != nil {
				bad(c, err)
				continue
			}
			p, ok := abs(c, dfd, p)
			if !ok || filepath.Dir(p) != target {
				continue
			}
			kind := "unlink"
			if c.name == "rmdir" || (c.name == "unlinkat" && len(c.args) > 2 && strings.Contains(c.args[2], "AT_REMOVEDIR")) {
				kind = "rmdir"
			}
			cc := mk(c, kind)
			cc.Path = p
			out = append(out, cc)
		}
	}
	return out, problems
}

func crashShape(calls []*crashCall) string {
	var b strings.Builder
	for _, c := range calls {
		b.WriteByte(map[string]byte{"mkdir": 'm', "open": 'o', "write": 'w', "close": 'c', "rename": 'r', "unlink": 'u', "rmdir": 'd'}[c.Kind])
	}
	return b.String()
}

func crashCompactShape(s string) string {
	var b strings.Builder
	for i := 0; i < len(s); {
		j := i
		for j < len(s) && s[j] == s[i] {
			j++
		}
		b.WriteByte(s[i])
		if j-i > 1 {
			fmt.Fprintf(&b, "%d", j-i)
		}
		i = j
	}
	return b.String()
}

var crashShapeRe = regexp.MustCompile(`^m*ow+crud*$`)

// ------------------------------------------------------------------------------------------------

type crashSizeStats struct {
	TestName      string `json:"test_name"`
	K             int    `json:"K"`
	Mkdirs        int    `json:"mkdirs"`
	Writes        int    `json:"writes"`
	Rmdirs        int    `json:"rmdir_attempts_after_failed_unlink"`
	UnlinkResult  string `json:"unlink_result"`
	Shape         string `json:"call_shape"`
	FileBytes     int    `json:"file_bytes"`
	OrdinalsAgree bool   `json:"thread_and_process_ordinals_agree"`
	KillsRun      int    `json:"kills_run"`
	LeftTmp       int    `json:"left_tmp"`
	LeftFinal     int    `json:"left_final"`
	LeftNothing   int    `json:"left_nothing"`
	Retries       int    `json:"retries"`
	Uninterrupted string `json:"uninterrupted_state"`
}

type crashRecord struct {
	Size   string `json:"size"`
	K      int    `json:"k,omitempty"`
	What   string `json:"what"`
	Detail string `json:"detail,omitempty"`
	Replay string `json:"replay,omitempty"`
}

type crashReport struct {
	Sizes            map[string]*crashSizeStats `json:"sizes"`
	TraceFailures    []crashRecord              `json:"trace_failures"`
	Violations       []crashRecord              `json:"violations"`
	KillInconsistent []crashRecord              `json:"kill_inconsistent"`
	InjectSemantics  string                     `json:"inject_semantics"`
	InjectEvidence   string                     `json:"inject_evidence"`
	Boundary         string                     `json:"boundary_crash_point"`
	Cases            int                        `json:"cases"`
	Strace           string                     `json:"strace"`
	CrossDeviceTmp   string                     `json:"cross_device_tmp"`
	CrossDeviceKills int                        `json:"cross_device_kills"`
}

// reference data of one size class, from the uninterrupted run
type crashRef struct {
	size     string
	testName string
	relDir   string // testdata/rapid/<sanitized>
	relFile  string
	seed     uint64
	nwords   int
	version  string
	direct   bool
	out      []byte
	words    []uint64
	calls    []*crashCall
	file     []byte // bytes of the final file
}

func crashQuote(args []string) string {
	parts := make([]string, len(args))
	for i, a := range args {
		if a != "" && strings.IndexFunc(a, func(r rune) bool {
			return !(r >= 'a' && r <= 'z' || r >= 'A' && r <= 'Z' || r >= '0' && r <= '9' || strings.ContainsRune("-_=/.,:+", r))
		}) < 0 {
			parts[i] = a
		} else {
			parts[i] = "'" + strings.ReplaceAll(a, "'", `'\''`) + "'"
		}
	}
	return strings.Join(parts, " ")
}

func (ref *crashRef) childArgs(exe, root string) []string {
	a := []string{exe, "persist-crash-child", "-file", filepath.Join(root, ref.relFile), "-version", ref.version,
		"-seed", strconv.FormatUint(ref.seed, 10), "-words", strconv.Itoa(ref.nwords), "-size", ref.size}
	if ref.direct {
		a = append(a, "-direct")
	}
	return a
}

// crashRun runs strace; returns (killed by SIGKILL, exit code, stderr).
func crashRun(root string, args []string, env ...string) (bool, int, string) {
	cmd := exec.Command(args[0], args[1:]...)
	cmd.Dir = root
	if len(env) > 0 {
		cmd.Env = append(os.Environ(), env...)
	}
	var stderr bytes.Buffer
	cmd.Stderr = &stderr
	cmd.Stdout = &stderr
	err := cmd.Run()
	if err == nil {
		return false, 0, stderr.String()
	}
	if ee, ok := err.(*exec.ExitError); ok {
		if ws, ok := ee.Sys().(syscall.WaitStatus); ok {
			if ws.Signaled() {
				return ws.Signal() == syscall.SIGKILL, 128 + int(ws.Signal()), stderr.String()
			}
			return ws.ExitStatus() == 137, ws.ExitStatus(), stderr.String()
		}
		return false, ee.ExitCode(), stderr.String()
	}
	return false, -1, err.Error()
}

type crashState struct {
	dirs  []string          // relative to root, sorted
	files map[string][]byte // relative to root
	other []string          // anything that is neither a directory nor a regular file
}

func crashWalk(root string) (*crashState, error) {
	st := &crashState{files: map[string][]byte{}}
	err := filepath.Walk(root, func(p string, info os.FileInfo, err error) error {
		if err != nil {
			return err
		}
		rel, _ := filepath.Rel(root, p)
		switch {
		case rel == ".":
		case info.IsDir():
			st.dirs = append(st.dirs, rel)
		case info.Mode().IsRegular():
			b, err := os.ReadFile(p)
			if err != nil {
				return err
			}
			st.files[rel] = b
		default:
			st.other = append(st.other, rel)
		}
		return nil
	})
	sort.Strings(st.dirs)
	return st, err
}

// crashCheckProperty: C16 on the state left in root.  Returns the class of what was left (tmp, final,
// nothing, or a combination) and the violations.
func (ref *crashRef) crashCheckProperty(root string, st *crashState) (string, []string) {
	var viol []string
	pattern := filepath.Join(root, rapid.VerifFailFilePattern(ref.testName))
	matches, err := filepath.Glob(pattern)
	if err != nil {
		viol = append(viol, fmt.Sprintf("filepath.Glob(%q): %v", pattern, err))
	}
	matched := map[string]bool{}
	for _, m := range matches {
		rel, _ := filepath.Rel(root, m)
		matched[rel] = true
		v, s, w, lerr := rapid.VerifLoadFailFile(m)
		switch {
		case lerr != nil:
			viol = append(viol, fmt.Sprintf("%s matches the fail file pattern but does not load: %.200s", rel, lerr.Error()))
		case v != ref.version || s != ref.seed || !sameWords(w, ref.words):
			viol = append(viol, fmt.Sprintf("%s matches the fail file pattern and loads as (%q, %d, %d words), expected (%q, %d, %d words)", rel, v, s, len(w), ref.version, ref.seed, len(ref.words)))
		case !bytes.Equal(st.files[rel], ref.file):
			viol = append(viol, fmt.Sprintf("%s matches the fail file pattern, has %d bytes, differs from the %d bytes of the uninterrupted run", rel, len(st.files[rel]), len(ref.file)))
		}
	}
	tmps, finals := 0, 0
	patBase := filepath.Base(pattern)
	for rel := range st.files {
		if matched[rel] {
			finals++
			continue
		}
		base := filepath.Base(rel)
		if filepath.Dir(rel) != ref.relDir {
			viol = append(viol, fmt.Sprintf("file %s outside the fail file directory", rel))
			continue
		}
		if ok, _ := filepath.Match(patBase, base); ok {
			viol = append(viol, fmt.Sprintf("%s has a fail file name but was not found by Glob", rel))
		}
		if ok, _ := filepath.Match(rapid.VerifFailfileTmpPattern(), base); !ok {
			viol = append(viol, fmt.Sprintf("leftover %s is neither a fail file nor a %s", rel, rapid.VerifFailfileTmpPattern()))
		}
		tmps++
	}
	for _, o := range st.other {
		viol = append(viol, "unexpected non-regular entry "+o)
	}
	class := "nothing"
	switch {
	case tmps > 0 && finals > 0:
		class = "tmp+final"
	case tmps > 0:
		class = "tmp"
	case finals > 0:
		class = "final"
	}
	if tmps+finals > 1 {
		viol = append(viol, fmt.Sprintf("%d files left behind", tmps+finals))
	}
	return class, viol
}

// crashExpect compares the state with the one the first c calls of the uninterrupted run produce.
func (ref *crashRef) crashExpect(root string, c int, st *crashState) string {
	var dirs []string
	var tmp []byte
	haveTmp, haveFinal := false, false
	for _, call := range ref.calls[:c] {
		switch call.Kind {
		case "mkdir":
			if call.ok() {
				dirs = append(dirs, call.Path) // paths of the reference run are stored relative to its root
			}
		case "open":
			haveTmp = true
		case "write":
			tmp = append(tmp, call.Data...)
		case "rename":
			haveTmp, haveFinal = false, true
		}
	}
	sort.Strings(dirs)
	if strings.Join(dirs, "\x00") != strings.Join(st.dirs, "\x00") {
		return fmt.Sprintf("directories %q, expected %q", st.dirs, dirs)
	}
	switch {
	case haveFinal:
		if len(st.files) != 1 || !bytes.Equal(st.files[ref.relFile], ref.file) {
			return fmt.Sprintf("expected exactly the complete final file, found %d files", len(st.files))
		}
	case haveTmp:
		if len(st.files) != 1 {
			return fmt.Sprintf("expected exactly one temporary file, found %d files", len(st.files))
		}
		for rel, b := range st.files {
			if ok, _ := filepath.Match(rapid.VerifFailfileTmpPattern(), filepath.Base(rel)); !ok || filepath.Dir(rel) != ref.relDir {
				return fmt.Sprintf("expected a temporary file, found %s", rel)
			}
			if !bytes.Equal(b, tmp) {
				return fmt.Sprintf("temporary file has %d bytes, the writes before the kill point amount to %d bytes", len(b), len(tmp))
			}
		}
	default:
		if len(st.files) != 0 {
			return fmt.Sprintf("expected no files, found %d", len(st.files))
		}
	}
	return ""
}

func crashSelect(K, maxk int) []int {
	var ks []int
	if maxk <= 0 || K <= maxk || K <= 24 {
		for k := 1; k <= K; k++ {
			ks = append(ks, k)
		}
		return ks
	}
	set := map[int]bool{}
	for i := 1; i <= 12; i++ {
		set[i] = true
		set[K+1-i] = true
	}
	if rest := maxk - 24; rest > 0 {
		span := K - 24
		for i := 0; i < rest; i++ {
			set[13+(2*i+1)*span/(2*rest)] = true
		}
	}
	for k := range set {
		ks = append(ks, k)
	}
	sort.Ints(ks)
	return ks
}

type crashKillResult struct {
	size       string
	k          int
	completed  int // projected calls that completed in the kill run
	class      string
	viol       []string
	incons     string
	replay     string
	tries      int
	dirCreated bool // for k at a mkdir: did the directory of that call exist afterwards
}

func cmdCrash(args []string) {
	fs := flag.NewFlagSet("persist-crash", flag.ExitOnError)
	outFile := fs.String("out", "", "Coq case file for the observed system calls")
	name := fs.String("name", "pcrash", "Coq definition name")
	seed := fs.Uint64("seed", 1, "seed of payload words and of the fail file")
	sizes := fs.String("sizes", strings.Join(crashSizeClasses, ","), "size classes")
	maxk := fs.Int("maxk", 0, "cap on kill points per size (0 = all)")
	jobs := fs.Int("j", 8, "parallel children")
	nwords := fs.Int("words", 5, "number of words in the fail file")
	direct := fs.Bool("direct", false, "negative control: the child writes the final file in place; trace failures and violations have to be reported")
	_ = fs.Parse(args)

	stracePath, err := exec.LookPath("strace")
	if err != nil {
		die("strace not found: %v", err)
	}
	exe, err := os.Executable()
	if err != nil {
		die("os.Executable: %v", err)
	}
	scratch, err := os.MkdirTemp("", "verif-persist-crash-")
	if err != nil {
		die("%v", err)
	}
	if s, err := filepath.EvalSymlinks(scratch); err == nil {
		scratch = s
	}
	defer os.RemoveAll(scratch)
	fail := func(format string, a ...any) {
		_ = os.RemoveAll(scratch)
		die(format, a...)
	}

	rep := crashReport{Sizes: map[string]*crashSizeStats{}, TraceFailures: []crashRecord{}, Violations: []crashRecord{}, KillInconsistent: []crashRecord{}, Strace: stracePath}
	var refs []*crashRef
	var coq strings.Builder
	fmt.Fprintf(&coq, "(* GENERATED by /verif/harness persist-crash -seed %d -sizes %s *)\n", *seed, *sizes)
	coq.WriteString(persistCaseHeader)
	fmt.Fprintf(&coq, "Definition %s : list pcase := [\n", *name)

	// ---- (a) uninterrupted, fully traced runs
	for i, size := range strings.Split(*sizes, ",") {
		size = strings.TrimSpace(size)
		out, words, err := crashPayload(size, *seed, *nwords)
		if err != nil {
			fail("%v", err)
		}
		ref := &crashRef{size: size, testName: crashTestNames[i%len(crashTestNames)], seed: *seed, nwords: *nwords, version: rapid.VerifRapidVersion(), direct: *direct, out: out, words: words}
		ref.relDir, ref.relFile = rapid.VerifFailFileName(ref.testName)
		st := &crashSizeStats{TestName: ref.testName}
		rep.Sizes[size] = st
		tf := func(what, detail string) {
			rep.TraceFailures = append(rep.TraceFailures, crashRecord{Size: size, What: what, Detail: detail})
		}

		root := filepath.Join(scratch, "u-"+size)
		if err := os.Mkdir(root, 0775); err != nil {
			fail("%v", err)
		}
		trace := filepath.Join(scratch, "u-"+size+".trace")
		cmdline := append([]string{stracePath, "-f", "-qq", "-xx", "-s", "2200000", "-e", "signal=none", "-o", trace, "-e", "trace=" + crashTraceSet}, ref.childArgs(exe, root)...)
		killed, code, stderr := crashRun(root, cmdline)
		if killed || code != 0 {
			fail("uninterrupted run of size %s failed (exit %d): %s\n%s", size, code, stderr, crashQuote(cmdline))
		}
		raw, err := crashParseTrace(trace)
		if err != nil {
			fail("trace of size %s: %v", size, err)
		}
		_ = os.Remove(trace)
		calls, problems := crashProject(raw, root, filepath.Join(root, ref.relDir), true)
		for _, p := range problems {
			tf("trace_decode", p)
		}
		file, err := os.ReadFile(filepath.Join(root, ref.relFile))
		if err != nil {
			tf("no_final_file", err.Error())
		}
		ref.file = file
		st.FileBytes = len(file)

		// direct checks of the shape of the call sequence
		shape := crashShape(calls)
		st.Shape = crashCompactShape(shape)
		st.K = len(calls)
		st.OrdinalsAgree = true
		var payload []byte
		var tmpPath string
		for _, c := range calls {
			if c.OrdTid != c.OrdProc {
				st.OrdinalsAgree = false
			}
			switch c.Kind {
			case "mkdir":
				st.Mkdirs++
				if !c.ok() {
					tf("mkdir_failed", fmt.Sprintf("%s = %s %s", c.Path, c.Ret, c.Errno))
				}
			case "open":
				tmpPath = c.Path
				if !strings.Contains(c.Flags, "O_EXCL") {
					tf("open_without_O_EXCL", c.Flags)
				}
				if !c.ok() {
					tf("open_failed", fmt.Sprintf("%s = %s %s", c.Path, c.Ret, c.Errno))
				}
			case "write":
				st.Writes++
				payload = append(payload, c.Data...)
				if c.Note != "" {
					tf("short_write", c.Note)
				}
				if !c.ok() {
					tf("write_failed", c.Ret+" "+c.Errno)
				}
			case "close":
				if c.Ret != "0" {
					tf("close_failed", c.Ret+" "+c.Errno)
				}
			case "rename":
				if c.Path != tmpPath || c.Path2 != filepath.Join(root, ref.relFile) || c.Ret != "0" || c.Note != "" {
					tf("rename_unexpected", fmt.Sprintf("rename(%q, %q) = %s %s %s", c.Path, c.Path2, c.Ret, c.Errno, c.Note))
				}
			case "unlink":
				st.UnlinkResult = strings.TrimSpace(c.Ret + " " + c.Errno)
				if c.Path != tmpPath {
					tf("unlink_unexpected", c.Path)
				}
			case "rmdir":
				st.Rmdirs++
				if c.Path != tmpPath || c.ok() {
					tf("rmdir_unexpected", fmt.Sprintf("%s = %s", c.Path, c.Ret))
				}
			}
		}
		if !crashShapeRe.MatchString(shape) {
			tf("call_order", "observed "+st.Shape+", expected mkdir* open write+ close rename unlink rmdir*")
		}
		if !bytes.Equal(payload, file) {
			tf("payload_differs_from_file", fmt.Sprintf("%d bytes written, file has %d bytes", len(payload), len(file)))
		}
		if ok, _ := filepath.Match(rapid.VerifFailfileTmpPattern(), filepath.Base(tmpPath)); !ok {
			tf("tmp_name", filepath.Base(tmpPath))
		}
		fst, err := crashWalk(root)
		if err != nil {
			fail("%v", err)
		}
		class, viol := ref.crashCheckProperty(root, fst)
		st.Uninterrupted = class
		if class != "final" {
			tf("uninterrupted_state", "left "+class)
		}
		for _, v := range viol {
			rep.Violations = append(rep.Violations, crashRecord{Size: size, What: v, Replay: crashQuote(cmdline)})
		}

		// Coq case
		var obs []string
		for _, c := range calls {
			switch c.Kind {
			case "open":
				if c.ok() {
					obs = append(obs, "OOpenExcl "+persistRunes(filepath.Base(c.Path)))
				}
			case "write":
				obs = append(obs, "OWrite "+persistBexp(c.Data))
			case "close":
				obs = append(obs, "OClose")
			case "rename":
				obs = append(obs, "ORename "+persistRunes(filepath.Base(c.Path))+" "+persistRunes(filepath.Base(c.Path2)))
			case "unlink":
				obs = append(obs, "OUnlink "+persistRunes(filepath.Base(c.Path)))
			}
		}
		if rep.Cases > 0 {
			coq.WriteString(";\n")
		}
		fmt.Fprintf(&coq, "  COps %d %s %s %s %s %d %s\n    [%s]", rep.Cases+1, persistRunes(filepath.Base(tmpPath)), persistRunes(filepath.Base(ref.relFile)),
			persistBexp([]byte(ref.version)), persistBexp(out), *seed, persistNList(words), strings.Join(obs, ";\n     "))
		rep.Cases++

		// store paths relative to the root for the kill runs
		for _, c := range calls {
			if c.Kind == "mkdir" {
				c.Path, _ = filepath.Rel(root, c.Path)
			}
		}
		ref.calls = calls
		refs = append(refs, ref)
		_ = os.RemoveAll(root)
	}
	coq.WriteString("\n].\n")
	fmt.Fprintf(&coq, "Definition %s_M : list N := Eval vm_compute in mismatches unicode_ld_ranges unicode_upper_pairs %s.\nPrint %s_M.\n", *name, *name, *name)
	if *outFile != "" {
		if err := os.WriteFile(*outFile, []byte(coq.String()), 0644); err != nil {
			fail("%v", err)
		}
	}

	// ---- (b) kill points
	type job struct {
		ref *crashRef
		k   int
	}
	var all []job
	for _, ref := range refs {
		for _, k := range crashSelect(len(ref.calls), *maxk) {
			all = append(all, job{ref, k})
		}
	}
	results := make([]crashKillResult, len(all))
	var wg sync.WaitGroup
	ch := make(chan int)
	var machinery []string
	var mu sync.Mutex
	if *jobs < 1 {
		*jobs = 1
	}
	for w := 0; w < *jobs; w++ {
		wg.Add(1)
		go func() {
			defer wg.Done()
			for idx := range ch {
				j := all[idx]
				res, merr := crashKill(scratch, stracePath, exe, j.ref, j.k, idx)
				if merr != "" {
					mu.Lock()
					machinery = append(machinery, merr)
					mu.Unlock()
				}
				results[idx] = res
			}
		}()
	}
	for i := range all {
		ch <- i
	}
	close(ch)
	wg.Wait()
	if len(machinery) > 0 {
		fail("kill runs: %s", strings.Join(machinery, "\n"))
	}

	before, after := 0, 0
	var evidence []string
	for i, res := range results {
		ref := all[i].ref
		st := rep.Sizes[ref.size]
		st.KillsRun++
		st.Retries += res.tries - 1
		switch res.class {
		case "tmp":
			st.LeftTmp++
		case "final":
			st.LeftFinal++
		case "nothing":
			st.LeftNothing++
		default:
			st.LeftTmp++
			st.LeftFinal++
		}
		for _, v := range res.viol {
			rep.Violations = append(rep.Violations, crashRecord{Size: ref.size, K: res.k, What: v, Replay: res.replay})
		}
		if res.incons != "" {
			rep.KillInconsistent = append(rep.KillInconsistent, crashRecord{Size: ref.size, K: res.k, What: res.incons, Replay: res.replay})
			continue
		}
		if res.completed == res.k-1 {
			before++
		} else if res.completed == res.k {
			after++
		}
		if ref.calls[res.k-1].Kind == "mkdir" && len(evidence) < 2 {
			evidence = append(evidence, fmt.Sprintf("size %s, SIGKILL injected at mkdir #%d (%s): directory exists afterwards = %v, trace shows the call completed = %v",
				ref.size, res.k, ref.calls[res.k-1].Path, res.dirCreated, res.completed == res.k))
		}
	}
	// ---- (c) the same saves with the system temp directory (TMPDIR) on another device than the fail-file directory:
	// SIGKILL at the n-th call of every data-moving system call (write, copy_file_range, sendfile, ...) of the child.
	// Whatever the save does with a temp directory it cannot rename out of, no picked-up file may be partial.
	if other := crashOtherDeviceDir(scratch); other == "" {
		rep.CrossDeviceTmp = "unavailable: no writable directory on another device than " + scratch
	} else {
		rep.CrossDeviceTmp = other
		movers := []string{"write", "pwrite64", "writev", "copy_file_range", "sendfile", "splice", "ftruncate", "linkat"}
		for i, ref := range refs {
			for _, sc := range movers {
				for _, n := range []int{1, 2, 3, 4, 5, 6, 8, 12, 16, 32, 64, 128, 256, 512} {
					root := filepath.Join(scratch, fmt.Sprintf("x-%d-%s-%d", i, sc, n))
					if err := os.Mkdir(root, 0775); err != nil {
						break
					}
					cmdline := append([]string{stracePath, "-f", "-qq", "-e", "signal=none", "-o", "/dev/null", "-e", "trace=" + sc,
						fmt.Sprintf("--inject=%s:signal=SIGKILL:when=%d", sc, n)}, ref.childArgs(exe, root)...)
					killed, _, _ := crashRun(root, cmdline, "TMPDIR="+other)
					rep.CrossDeviceKills++
					if fst, err := crashWalk(root); err == nil {
						_, viol := ref.crashCheckProperty(root, fst)
						for _, v := range viol {
							rep.Violations = append(rep.Violations, crashRecord{Size: ref.size, K: n, What: v + " (system temp directory on another device, SIGKILL at " + sc + fmt.Sprintf(" #%d)", n),
								Replay: "TMPDIR=" + other + " " + crashQuote(cmdline)})
						}
					}
					_ = os.RemoveAll(root)
					if ents, err := os.ReadDir(other); err == nil {
						for _, e := range ents {
							_ = os.RemoveAll(filepath.Join(other, e.Name()))
						}
					}
					if !killed {
						break
					}
				}
			}
		}
		_ = os.RemoveAll(other)
	}
	switch {
	case before > 0 && after == 0:
		rep.InjectSemantics = "before-call"
		rep.Boundary = "kill point k leaves the effects of calls 1..k-1; k=1 is the crash before any call; the state after all K calls is the uninterrupted run (checked: uninterrupted_state)"
	case after > 0 && before == 0:
		rep.InjectSemantics = "after-call"
		rep.Boundary = "kill point k leaves the effects of calls 1..k; the crash before any call leaves the empty scratch directory (nothing to find: trivially fine)"
	case before == 0 && after == 0:
		rep.InjectSemantics = "unknown"
	default:
		rep.InjectSemantics = fmt.Sprintf("mixed (before-call %d, after-call %d)", before, after)
	}
	rep.InjectEvidence = strings.Join(evidence, "; ")
	js, _ := json.Marshal(rep)
	fmt.Println(string(js))
}

// crashKill runs the child with SIGKILL injected at the k-th projected call of the uninterrupted run.
func crashKill(scratch, stracePath, exe string, ref *crashRef, k int, idx int) (crashKillResult, string) {
	call := ref.calls[k-1]
	res := crashKillResult{size: ref.size, k: k}
	for try := 1; try <= 3; try++ {
		res.tries = try
		root := filepath.Join(scratch, fmt.Sprintf("k-%d-%d", idx, try))
		if err := os.Mkdir(root, 0775); err != nil {
			return res, err.Error()
		}
		trace := root + ".trace"
		cmdline := append([]string{stracePath, "-f", "-qq", "-xx", "-s", "0", "-e", "signal=none", "-o", trace, "-e", "trace=" + crashTraceSet,
			fmt.Sprintf("--inject=%s:signal=SIGKILL:when=%d", call.Sys, call.OrdTid)}, ref.childArgs(exe, root)...)
		// the replay writes no trace; the child creates the directories it needs
		res.replay = crashQuote(append(append(append([]string(nil), cmdline[:9]...), "/dev/null"), cmdline[10:]...))
		killed, code, stderr := crashRun(root, cmdline)
		if !killed && code != 0 && code != 3 {
			_ = os.RemoveAll(root)
			_ = os.Remove(trace)
			return res, fmt.Sprintf("strace failed (exit %d): %s\n%s", code, stderr, res.replay)
		}
		raw, perr := crashParseTrace(trace)
		_ = os.Remove(trace)
		st, werr := crashWalk(root)
		if werr != nil {
			_ = os.RemoveAll(root)
			return res, werr.Error()
		}
		res.class, res.viol = ref.crashCheckProperty(root, st)
		res.incons = ""
		res.completed = -1
		switch {
		case perr != nil:
			res.incons = "trace of the kill run unparsable: " + perr.Error()
		case !killed:
			res.incons = fmt.Sprintf("child was not killed (exit %d) %s", code, strings.TrimSpace(stderr))
		default:
			calls, _ := crashProject(raw, root, filepath.Join(root, ref.relDir), false)
			n := 0
			for _, c := range calls {
				if c.done() {
					n++
				}
			}
			res.completed = n
			switch {
			case n != k-1 && n != k:
				res.incons = fmt.Sprintf("%d projected calls completed before the kill, expected %d or %d", n, k-1, k)
			case crashShape(calls[:n]) != crashShape(ref.calls[:n]):
				res.incons = fmt.Sprintf("calls before the kill %s differ from the uninterrupted run %s", crashCompactShape(crashShape(calls[:n])), crashCompactShape(crashShape(ref.calls[:n])))
			default:
				if d := ref.crashExpect(root, n, st); d != "" {
					res.incons = fmt.Sprintf("state after the kill is not the state after %d calls: %s", n, d)
				}
			}
		}
		if call.Kind == "mkdir" {
			_, err := os.Stat(filepath.Join(root, call.Path))
			res.dirCreated = err == nil
		}
		_ = os.RemoveAll(root)
		if res.incons == "" || len(res.viol) > 0 {
			break
		}
	}
	return res, ""
}

// crashOtherDeviceDir makes a scratch directory on another device than dir ("" if there is none).
func crashOtherDeviceDir(dir string) string {
	var st syscall.Stat_t
	if syscall.Stat(dir, &st) != nil {
		return ""
	}
	cands := []string{os.Getenv("VERIF_OTHER_DEVICE"), "/dev/shm", "/run/shm", "/var/tmp", "/run/user/" + strconv.Itoa(os.Getuid())}
	if h, err := os.UserHomeDir(); err == nil {
		cands = append(cands, h)
	}
	for _, c := range cands {
		if c == "" {
			continue
		}
		var cs syscall.Stat_t
		if syscall.Stat(c, &cs) != nil || cs.Dev == st.Dev {
			continue
		}
		if d, err := os.MkdirTemp(c, "verif-xdev-"); err == nil {
			return d
		}
	}
	return ""
}
