"""Helpers of the C14 / C15 checks (lockset tables + race-detector harness).

  build_raceharness()                 go build -race the separate module /verif/raceharness against /repo
  run_harness(args, workdir, tag)     run it with GORACE logging to files, return (summary json, race reports)
  table_report(ctx, table)            evaluate table_ok / bad_rows / bad_pairs of a generated table with coqc
  classify(report)                    signature of a race report (narrow enough to key a known finding)

CLI (used as the replay command of a violation):
  python3 /verif/lib/locklib.py replay <raceharness subcommand and flags...>
builds the harness, runs the workload, prints the summary and the distinct race reports; exit 1 if
the detector reported anything or a schedule-independent fact failed.
"""
import json, os, re, subprocess, sys, time, glob, shutil

sys.path.insert(0, '/verif/lib')
import vlib

RH_SRC = vlib.VERIF + '/raceharness'
RH_BIN = vlib.BUILD + '/raceharness'
RACE_ENV = dict(vlib.GOENV, CGO_ENABLED='1')

T_COUNTERS = ['verdict_mismatch', 'unexpected_error', 'cleanup_not_once', 'contexts_distinct',
              'ctx_not_live_before_return', 'ctx_not_cancelled_at_cleanup', 'ctx_in_cleanup_live',
              'failed_without_signal', 'failed_mismatch_after_join']
G_COUNTERS = ['value_mismatches', 'error_mismatches', 'data_mismatches', 'solo_nondeterminism', 'panic_runs',
              'custom_ctx_problems']


def build_raceharness():
    """returns (ok, race_enabled, message)"""
    os.makedirs(vlib.BUILD, exist_ok=True)
    rc, out, err, dt = vlib.sh(['go', 'build', '-race', '-tags', 'verif', '-o', RH_BIN, '.'], cwd=RH_SRC, env=RACE_ENV,
                               timeout=900)
    if rc == 0:
        return True, True, f'go build -race ok ({dt:.1f}s)'
    msg = f'go build -race failed:\n{out}\n{err}'
    # fall back to a plain build: stress only, no detector (clearly labelled by race_enabled=false)
    rc2, out2, err2, _ = vlib.sh(['go', 'build', '-tags', 'verif', '-o', RH_BIN, '.'], cwd=RH_SRC, env=vlib.GOENV, timeout=900)
    if rc2 == 0:
        return True, False, msg + '\nplain build ok: the race detector is NOT active'
    return False, False, msg + f'\nplain build failed too:\n{out2}\n{err2}'


FRAME = re.compile(r'^\s+(\S.*?)\(\)\n\s+(\S+?):(\d+)', re.M)


def _norm_func(f):
    out, depth = [], 0                         # drop type arguments (brackets nest: [go.shape.[]uint8])
    for ch in f:
        if ch == '[':
            depth += 1
        elif ch == ']':
            depth = max(0, depth - 1)
        elif depth == 0:
            out.append(ch)
    f = ''.join(out)
    f = f.replace('pgregory.net/rapid.', '')
    return f


def parse_reports(text):
    """split a GORACE log into reports; for each the two access stacks as lists of (func, file, line)"""
    reps = []
    for block in text.split('=================='):
        if 'WARNING: DATA RACE' not in block:
            continue
        parts = re.split(r'\n(?=Previous |Goroutine )', block)
        stacks = []
        for p in parts:
            q = p.strip()
            if q.startswith('WARNING: DATA RACE'):
                q = q.split('\n', 1)[1].strip() if '\n' in q else ''
            if re.match(r'(Read|Write|Atomic|Previous) ', q):
                head = q.split('\n', 1)[0]
                frames = [(_norm_func(m.group(1)), m.group(2), int(m.group(3))) for m in FRAME.finditer(p)]
                stacks.append((head, frames))
        if len(stacks) >= 2:
            reps.append({'text': block.strip(), 'a': stacks[0], 'b': stacks[1]})
    return reps


def _top_repo(frames):
    for fn, fl, ln in frames:
        if fl.startswith(vlib.REPO + '/') or '/rapid/' in fl and '/raceharness/' not in fl:
            return fn, os.path.basename(fl), ln
    return ('?', '?', 0)


def classify(rep):
    """(signature, short description).  The signature does not contain line numbers.
       class Generator.str  : the pair (String's Once body writes g.str, value reads it)           [D7]
       class deferredGen.g  : any report one of whose stacks passes through deferredGen.value --
                              the bare g.g itself, and objects built by fn() and published through it [D8]
       class other          : anything else, keyed by the pair of top /repo frames"""
    fa, fb = _top_repo(rep['a'][1]), _top_repo(rep['b'][1])
    fns_a = [f for f, _, _ in rep['a'][1]]
    fns_b = [f for f, _, _ in rep['b'][1]]
    pair = sorted([f'{fa[1]}:{fa[0]}', f'{fb[1]}:{fb[0]}'])
    lines = sorted([f'{fa[1]}:{fa[2]}', f'{fb[1]}:{fb[2]}'])
    tops = {fa[0], fb[0]}
    harness_owned = fa[0] == '?' or fb[0] == '?'
    if harness_owned:
        return 'race harness-owned ' + ' | '.join(pair), 'a racing access has no /repo frame: harness bug?'
    is_val = lambda f: re.search(r'\(\*Generator\)\.value$', f) is not None
    is_str = lambda f: re.search(r'\(\*Generator\)\.String\.func\d+$', f) is not None
    if (is_val(fa[0]) and is_str(fb[0])) or (is_val(fb[0]) and is_str(fa[0])):
        return 'race field=Generator.str', f'Generator.value reads g.str unsynchronised while String() writes it inside the Once ({lines[0]} / {lines[1]})'
    if any('(*deferredGen).value' in f for f in fns_a + fns_b):
        return 'race field=deferredGen.g', f'deferredGen.g assigned lazily without synchronisation; racing accesses {pair[0]} / {pair[1]} ({lines[0]} / {lines[1]})'
    return 'race other ' + ' | '.join(pair), f'unexpected data race {lines[0]} / {lines[1]}'


def run_harness(args, workdir, tag, timeout=1800):
    """returns (summary dict or None, list of parsed race reports, command string, error text)"""
    os.makedirs(workdir, exist_ok=True)
    for f in glob.glob(f'{workdir}/race-{tag}.*'):
        os.remove(f)
    env = dict(RACE_ENV, GORACE=f'log_path={workdir}/race-{tag} halt_on_error=0 exitcode=0 history_size=2')
    cmd = [RH_BIN] + [str(a) for a in args]
    rc, out, err, dt = vlib.sh(cmd, cwd=workdir, env=env, timeout=timeout)
    text = ''
    for f in sorted(glob.glob(f'{workdir}/race-{tag}.*')):
        text += open(f, errors='replace').read()
    reps = parse_reports(text)
    summary = None
    try:
        summary = json.loads(out.strip().splitlines()[-1])
        summary['wall_s'] = round(dt, 2)
    except Exception:
        pass
    shown = 'python3 /verif/lib/locklib.py replay ' + ' '.join(str(a) for a in args)
    errtxt = '' if rc == 0 and summary is not None else f'exit {rc}\n{out[-1500:]}\n{err[-1500:]}'
    return summary, reps, shown, errtxt


def dedupe(reps):
    """signature -> (description, first report text, count)"""
    d = {}
    for r in reps:
        sig, what = classify(r)
        if sig in d:
            d[sig][2] += 1
        else:
            d[sig] = [what, r['text'], 1]
    return d


def table_report(ctx, table):
    """(ok, bad_rows, bad_pairs_text, raw) for Generated.Locksets.<table>; None ok = could not evaluate"""
    ok, log = ctx.make(['Generated/Locksets.vo', 'Model/Lockset.vo'])
    if not ok:
        return None, [], '', log[-3000:]
    src = f'''From Coq Require Import List String.
From Rapid Require Import Model.Lockset Generated.Locksets.
Import ListNotations.
Definition fname (f : field) : string :=
  match find (fun p => Nat.eqb (fst p) f) field_names with Some p => snd p | None => "?"%string end.
Eval vm_compute in (table_ok {table}).
Eval vm_compute in (bad_rows {table}).
Eval vm_compute in (map (fun p => (a_row (fst p), fname (a_f (fst p)), a_w (fst p), a_row (snd p), a_w (snd p)))
                        (bad_pairs {table})).
Eval vm_compute in (List.length {table}, List.length (table_anns {table})).
'''
    name = f'locktab_{table}_tmp'
    path = f'{vlib.COQ}/{name}.v'
    open(path, 'w').write(src)
    try:
        rc, out, err, dt = vlib.sh(['coqc', '-Q', '.', 'Rapid', name + '.v'], cwd=vlib.COQ, timeout=600)
    finally:
        for ext in ('.v', '.vo', '.vok', '.vos', '.glob'):
            try:
                os.remove(f'{vlib.COQ}/{name}{ext}')
            except OSError:
                pass
        try:
            os.remove(f'{vlib.COQ}/.{name}.aux')
        except OSError:
            pass
    if rc != 0:
        return None, [], '', (out + err)[-3000:]
    blocks = re.split(r'\n\s*=\s', '\n' + out)
    blocks = [re.sub(r'\s+', ' ', b.split('\n     :')[0]).strip() for b in blocks[1:]]
    okv = blocks[0].startswith('true') if blocks else None
    rows = re.findall(r'"([^"]*)"', blocks[1]) if len(blocks) > 1 else []
    pairs = blocks[2] if len(blocks) > 2 else ''
    size = blocks[3] if len(blocks) > 3 else ''
    return okv, rows, pairs, size


def problems_of(summary, counters):
    return {c: summary.get(c, 0) for c in counters if summary.get(c, 0)}


def main():
    if len(sys.argv) < 3 or sys.argv[1] != 'replay':
        print(__doc__)
        sys.exit(2)
    ok, race, msg = build_raceharness()
    print(msg)
    if not ok:
        sys.exit(2)
    work = vlib.VERIF + '/work/replay-lock'
    shutil.rmtree(work, ignore_errors=True)
    summary, reps, shown, err = run_harness(sys.argv[2:], work, 'replay')
    if summary is None:
        print('harness failed:', err)
        sys.exit(2)
    s = dict(summary)
    s.pop('generator_names', None)
    print(json.dumps(s, indent=1))
    d = dedupe(reps)
    bad = problems_of(summary, T_COUNTERS if summary.get('cmd') == 't-methods' else G_COUNTERS)
    print(f'{len(reps)} race-detector reports, {len(d)} distinct classes; failed schedule-independent facts: {bad}')
    for sig, (what, text, n) in d.items():
        print(f'--- {sig}  x{n}: {what}\n{text[:3000]}\n')
    sys.exit(1 if d or bad else 0)


if __name__ == '__main__':
    main()
