"""Helpers shared by checks/C06.py, C16.py, C17.py (fail-file persistence)."""
import json, os, re, shlex, subprocess, sys, time
from concurrent.futures import ThreadPoolExecutor

import vlib

BUILD_CMD = 'cd /verif/harness && go build -tags verif -o /verif/build/harness . && '

ASSUMPTIONS = [
    'bytes are modelled as N and byte strings as list N; the theorems hold for all list N, hence for all byte strings',
    'bufio.Scanner/ScanLines, strings.TrimSpace, strings.Split/Join, strconv.ParseUint, fmt %v/%x, filepath.Match/Glob/Join and '
    'os.CreateTemp are re-modelled by hand in Model/Persist.v and tied to the Go library only by differential testing (persist-cases)',
    'unicode.IsLetter/IsDigit/ToUpper enter as oracles; Generated/UnicodeLD.v tabulates them by enumerating all 0x110000 code points '
    'and the case files re-enumerate and compare',
]


def parse_json_line(out):
    """last line of stdout that parses as a JSON object"""
    for line in reversed(out.strip().splitlines()):
        line = line.strip()
        if line.startswith('{'):
            try:
                return json.loads(line)
            except ValueError:
                continue
    return None


def merge_counts(dst, src):
    for k, v in (src or {}).items():
        if isinstance(v, dict):
            merge_counts(dst.setdefault(k, {}), v)
        elif isinstance(v, (int, float)) and not isinstance(v, bool):
            dst[k] = dst.get(k, 0) + v if k not in ('max_output_line_bytes', 'letter_or_digit_ranges', 'upper_pairs') else max(dst.get(k, 0), v)


def run_case_shards(ctx, shards, jobs=16, gen_timeout=600, coq_timeout=900):
    """shards: list of dicts {name, n, seed, classes, long}.  Generates every case file with the harness
    (sequentially: cheap), evaluates them with coqc in parallel.  Returns (stats, results) where results is a
    list of (shard, ok, text) and stats the merged generator statistics (incl. roundtrip/name failures)."""
    stats = {'cases': 0}
    fails = {'roundtrip_failures': [], 'name_failures': [], 'load_panics': []}
    files = []
    samples = []
    hashes = set()
    for sh in shards:
        vfile = f'cases_persist_{ctx.id}_{sh["name"]}.v'
        args = ['persist-cases', '-n', sh['n'], '-seed', sh['seed'], '-out', f'{vlib.COQ}/{vfile}', '-name', sh['name'],
                '-classes', sh['classes']]
        if 'long' in sh:
            args += ['-long', sh['long']]
        rc, out, err = ctx.harness(*args, timeout=gen_timeout)
        st = parse_json_line(out) if rc == 0 else None
        if st is None:
            ctx.broken('correspondence', f'persist-cases failed for shard {sh["name"]}', (out + err)[-3000:])
            continue
        for k in fails:
            for f in st.get(k) or []:
                f = dict(f)
                f['shard'] = sh
                fails[k].append(f)
        samples += st.get('samples') or []
        hashes.update(st.get('hashes') or [])
        merge_counts(stats, {k: v for k, v in st.items() if k not in ('roundtrip_failures', 'name_failures', 'load_panics', 'samples', 'hashes', 'distinct_nontrivial')})
        files.append((sh, vfile))

    def ev(item):
        sh, vfile = item
        ok, txt = ctx.coq_cases(vfile, sh['name'], timeout=coq_timeout)
        return sh, vfile, ok, txt

    results = []
    with ThreadPoolExecutor(max_workers=jobs) as ex:
        for sh, vfile, ok, txt in ex.map(ev, files):
            results.append((sh, ok, txt))
            if ok:
                try:
                    os.remove(f'{vlib.COQ}/{vfile}')
                except OSError:
                    pass
    stats.update(fails)
    stats['samples'] = samples[:6]
    stats['distinct_nontrivial'] = len(hashes)     # distinct across all shards (hash of the case without its id), non-empty input
    return stats, results


def regen_cmd(sh):
    a = f'/verif/build/harness persist-cases -n {sh["n"]} -seed {sh["seed"]} -classes {sh["classes"]} -name {sh["name"]} -out /verif/coq/cases_persist_replay_{sh["name"]}.v'
    if 'long' in sh:
        a += f' -long {sh["long"]}'
    return BUILD_CMD + a + f' && cd /verif/coq && coqc -Q . Rapid cases_persist_replay_{sh["name"]}.v'


def report_shards(ctx, stats, results, what):
    """turn generator-side oracle failures into failing inputs and model mismatches into broken correspondences"""
    for f in stats.get('roundtrip_failures') or []:
        m = re.search(r'-maxline (\d+)', f.get('replay', ''))
        maxline = int(m.group(1)) if m else 0
        sig = 'output line >= 65534 bytes' if maxline >= 65534 else f'roundtrip class={f.get("class")} {f.get("what", "")[:60]}'
        ctx.fail_input(sig, f'saved fail file does not load back: {f.get("what")} (input class {f.get("class")}, longest output line {maxline} bytes)',
                       {'cmd': BUILD_CMD + f.get('replay', ''), 'expected': 'loadFailFile(saveFailFile(x)) = x', 'observed': f.get('what'),
                        'case': f, 'regenerate': regen_cmd(f['shard'])})
    for f in stats.get('load_panics') or []:
        ctx.fail_input('loadFailFile panics', f'an unusable fail file crashes the loader instead of being ignored: {f.get("what")}',
                       {'cmd': regen_cmd(f['shard']), 'case': f})
    for f in stats.get('name_failures') or []:
        ctx.fail_input(f'name {f.get("what", "")[:80]}', f'fail-file name/pattern defect: {f.get("what")}',
                       {'cmd': regen_cmd(f['shard']), 'case': f})
    for sh, ok, txt in results:
        if ok is None:
            ctx.broken('correspondence', f'{what}: case file of shard {sh["name"]} could not be evaluated', txt)
        elif not ok:
            ctx.broken('correspondence', f'{what}: model and implementation disagree on cases {txt[:300]} of shard {sh["name"]}',
                       f'mismatching case ids: {txt}\nregenerate and inspect with:\n{regen_cmd(sh)}')


def distribution(stats):
    return {k: stats.get(k) for k in ('input_classes', 'load_results', 'parse_results', 'max_output_line_bytes', 'total_input_bytes',
                                      'skipped', 'letter_or_digit_ranges', 'upper_pairs') if stats.get(k)}
