"""Shared helpers of the core checks (C01..C05, C07..C13, C18): sharded correspondence runs and oracles."""
import json, os, subprocess, sys, time, re
from concurrent.futures import ThreadPoolExecutor
sys.path.insert(0, '/verif/lib')
import vlib

COQ = vlib.COQ


def _one_shard(args):
    ctx, cmd, extra, shard, seed, names = args
    vfile = f'cases_{ctx.id}_{cmd.replace("-", "")}_{shard}.v'
    name = f'k{shard}'
    rc, out, err = ctx.harness(cmd, '-seed', seed, '-out', f'{COQ}/{vfile}', '-name', name, *extra, timeout=600)
    if rc != 0:
        return {'shard': shard, 'error': f'harness {cmd} failed: {out[-500:]} {err[-1500:]}'}
    try:
        stats = json.loads(out.strip().splitlines()[-1])
    except Exception:
        stats = {}
    res = {'shard': shard, 'seed': seed, 'stats': stats, 'mismatch': {}}
    # distinct cases of this shard: case lines of the generated file with the case id stripped
    try:
        hs = set()
        for line in open(f'{COQ}/{vfile}'):
            t = line.strip().rstrip(';')
            m = re.match(r'^\(?\s*(mk\w+\s+)?\(?\d+%?(nat)?\)?[ ,]+(.*)$', t)
            if m and len(m.group(3)) > 60:
                hs.add(hash(m.group(3)))
        res['distinct'] = len(hs)
    except OSError:
        res['distinct'] = 0
    rc2, cout, cerr, dt = vlib.sh(['coqc', '-Q', '.', 'Rapid', '-w', '-abstract-large-number', vfile], cwd=COQ, timeout=1500)
    for ext in ('.vo', '.glob', '.vok', '.vos'):
        try:
            os.remove(f'{COQ}/{vfile[:-2]}{ext}')
        except OSError:
            pass
    try:
        os.remove(f'{COQ}/.{vfile[:-2]}.aux')
    except OSError:
        pass
    if rc2 != 0:
        res['error'] = 'coqc failed on case file: ' + (cout + cerr)[-1500:]
        res['vfile'] = vfile
        return res
    for suffix in names:
        m = re.search(name + suffix + r'_M\s*=\s*(.*?)\n\s*:\s*list', cout, flags=re.S)
        if not m:
            res['error'] = f'no result for {name}{suffix}_M in coqc output'
            res['vfile'] = vfile
            return res
        txt = re.sub(r'\s+', ' ', m.group(1)).strip()
        if txt != '[]':
            res['mismatch'][suffix or 'cases'] = txt
            res['vfile'] = vfile
    if not res['mismatch']:
        os.remove(f'{COQ}/{vfile}')
    res['coq_s'] = round(dt, 1)
    return res


def correspondence(ctx, cmd, shards, extra, names=('',)):
    """run `harness <cmd>` for several seeds in parallel, evaluate each case file with vm_compute.
    Returns (total_stats, broken) where broken is a list of (what, detail)."""
    # the libraries the case files import must be current (Generated/*.v may just have been regenerated)
    ok, log = ctx.make(['Model/Corr.vo', 'Model/CorrEngine.vo', 'Model/CorrValues.vo', 'Model/CorrStrings.vo', 'Generated/GeomTable.vo'])
    if not ok:
        return {}, [('the correspondence libraries (Model/Corr*.v) no longer build', log[-3000:])]
    jobs = [(ctx, cmd, [str(x) for x in extra], i, ctx.seed * 1000 + i, names) for i in range(shards)]
    with ThreadPoolExecutor(max_workers=min(16, shards)) as ex:
        results = list(ex.map(_one_shard, jobs))
    total = {}
    broken = []

    def merge(dst, src):
        for k, v in src.items():
            if isinstance(v, dict):
                merge(dst.setdefault(k, {}), v)
            elif isinstance(v, (int, float)):
                dst[k] = dst.get(k, 0) + v
            elif isinstance(v, list):
                dst.setdefault(k, [])
                dst[k] += v[:3]
    total['distinct_cases'] = sum(r.get('distinct', 0) for r in results)
    for r in results:
        merge(total, r.get('stats', {}))
        if 'error' in r:
            broken.append((f'{cmd} shard {r["shard"]}: model could not be evaluated on the generated cases', r['error']))
        for k, v in r.get('mismatch', {}).items():
            broken.append((f'{cmd} ({k}) seed {r.get("seed")}: model and implementation disagree on cases {v[:300]}',
                           f'case file kept at {COQ}/{r.get("vfile")}; observables: see coq/Model/Corr*.v; mismatching (case id, observable ids): {v}'))
    return total, broken


def oracle(ctx, cmd, args, timeout=900):
    rc, out, err = ctx.harness(cmd, *args, timeout=timeout)
    if rc != 0:
        return None, f'harness {cmd} failed: {out[-1000:]} {err[-2000:]}'
    try:
        return json.loads(out.strip().splitlines()[-1]), ''
    except Exception as e:
        return None, f'cannot parse output of {cmd}: {e}: {out[-500:]}'


def oracle_parallel(ctx, cmd, arglists, timeout=900):
    with ThreadPoolExecutor(max_workers=min(16, len(arglists))) as ex:
        return list(ex.map(lambda a: oracle(ctx, cmd, a, timeout), arglists))


def merge_counts(dicts):
    tot = {}
    for d in dicts:
        for k, v in (d or {}).items():
            if isinstance(v, (int, float)):
                tot[k] = tot.get(k, 0) + v
    return tot


def run_core(ctx, spec):
    """spec: dict(prop, corr=[(cmd, quick_shards, thorough_shards, extra_args, names)],
                  oracles=[(cmd, quick_arglists, thorough_arglists)], oracle_props=[ids], partial=[..], assumptions=[..], rule=str)"""
    thorough = ctx.tier == 'thorough'
    ctx.prove(spec['prop'])
    ctx.partial += spec.get('partial', [])
    evaluations = 0
    distinct = 0
    dist = {}
    samples = []
    for cmd, qs, ts, extra, names in spec.get('corr', []):
        total, broken = correspondence(ctx, cmd, ts if thorough else qs, extra, names)
        dist[cmd] = total
        distinct += int(total.get('distinct_cases', 0))
        st = total.get('stats', total)
        evaluations += int(total.get('cases', 0)) + sum(int(v) for k, v in st.items() if isinstance(v, (int, float)) and k.startswith(('dc_', 'acc_accepted', 'acc_rejected')))
        samples += [str(x)[:600] for x in total.get('samples', [])[:2]]
        for what, detail in broken:
            ctx.broken('correspondence', what, detail)
        # the case generators double as oracles on the implementation (e.g. accept sequences for C05)
        for f in (total.get('failures') or []):
            if isinstance(f, dict) and f.get('property', ctx.id) in spec.get('oracle_props', [ctx.id]):
                ctx.fail_input(str(f.get('what')), str(f.get('what', '')), dict(f))
    props = spec.get('oracle_props', [ctx.id])
    for cmd, qa, ta in spec.get('oracles', []):
        arglists = [[a.replace('{seed}', str(ctx.seed * 100 + i)) for a in al] for i, al in enumerate(ta if thorough else qa)]
        results = oracle_parallel(ctx, cmd, arglists)
        st_tot = {}
        for (res, err), al in zip(results, arglists):
            if res is None:
                ctx.broken('machinery', f'oracle {cmd} could not run', err)
                continue
            for k, v in (res.get('stats') or {}).items():
                st_tot[k] = st_tot.get(k, 0) + v
            samples += [str(x)[:600] for x in (res.get('samples') or [])[:1]]
            for f in (res.get('failures') or []):
                if f.get('property', ctx.id) not in props:
                    continue
                sig = f"{f.get('what')}"
                replay = dict(f)
                replay['cmd'] = f"/verif/build/harness {cmd} " + ' '.join(al) + (f" -only {f['index']}" if 'index' in f else '')
                ctx.fail_input(sig, f.get('what', ''), replay)
        dist['oracle:' + cmd] = st_tot
        evaluations += sum(v for k, v in st_tot.items() if k in ('compared', 'checks_run', 'runs', 'cases'))
    # a broken correspondence with no failing input: widen the oracle search once
    if ctx.brokens and not ctx.failing and spec.get('oracles'):
        cmd, qa, ta = spec['oracles'][0]
        wide = [[a.replace('{seed}', str(ctx.seed * 100 + 50 + i)) for a in al] for i, al in enumerate((ta or qa) * 2)]
        for (res, err), al in zip(oracle_parallel(ctx, cmd, wide), wide):
            for f in ((res or {}).get('failures') or []):
                if f.get('property', ctx.id) in props:
                    replay = dict(f)
                    replay['cmd'] = f"/verif/build/harness {cmd} " + ' '.join(al) + (f" -only {f['index']}" if 'index' in f else '')
                    ctx.fail_input(f"{f.get('what')}", f.get('what', ''), replay)
    return ctx.finish(level='proof', evaluations=evaluations, distinct=distinct,
                      rule=spec.get('rule', 'evaluations = correspondence cases evaluated by vm_compute plus oracle runs on the implementation; distinct_nontrivial = number of distinct case lines (case id stripped, longer than 60 characters: a non-empty program / input) in the case files generated by this run; cases come from one splitmix64 state per shard (seed = VERIF_SEED*1000+shard)'),
                      samples=samples[:4] or ['(see input_distribution)'],
                      extra={'input_distribution': dist}, assumptions=spec.get('assumptions', []))
