"""Common machinery of the /verif checks.

A check module (checks/Cxx.py) defines run(ctx).  It uses:
  ctx.prove(prop_file)            build the .vo closure of coq/Properties/<prop_file>.v (full .vo build, never -vos),
                                  run the hygiene grep, re-check the property file itself and collect its theorems and
                                  the `Print Assumptions` output.  A failure is a *broken obligation*.
  ctx.harness(args...)            run the Go harness (built with -tags verif against /repo's working tree)
  ctx.coq_cases(vfile, name)      evaluate a generated case file with vm_compute, return the list of mismatches
  ctx.broken(kind, what, ...)     record a broken obligation / correspondence (becomes a VIOLATION unless an oracle
                                  found a concrete failing input first; then that input is the replay)
  ctx.fail_input(sig, what, replay)  record a concrete failing input found by a direct oracle on the implementation
  ctx.finish(coverage...)         write evidence, print KNOWN-FINDING / VIOLATION lines, return the exit code
"""
import json, os, re, subprocess, sys, time, hashlib, shutil, glob

VERIF = '/verif'
REPO = '/repo'
COQ = VERIF + '/coq'
BUILD = VERIF + '/build'
GOENV = dict(os.environ, GOFLAGS='-mod=mod', GOPROXY='off', GOSUMDB='off', GOTOOLCHAIN='local',
             CGO_ENABLED=os.environ.get('CGO_ENABLED', '0'))
FORBIDDEN = r'\b(Admitted|admit|Axiom|Axioms|Parameter|Parameters|Conjecture|Conjectures)\b|Unset Guard|bypass_check|type-in-type|impredicative-set|Admit Obligations|Unset Universe Checking|Unset Positivity'

TRUSTED_BASE_COMMON = [
    'Coq 8.16.1 kernel (coqc, full .vo builds; vm_compute used in Examples, finite sweeps and case files; native_compute not used)',
    'hand-written Gallina model coq/Model/*.v (see DESIGN.md section 3 for what is modelled rather than verified)',
    'correspondence harness /verif/harness (differential testing: generators, canonicalisers, Go/Coq twins of the user-function menu)',
    'translator /verif/extract (constants, geom table, lockset tables regenerated from /repo on every run)',
    'add-only export hook /repo/verif_export.go (build tag verif)',
]


def sh(cmd, cwd=None, env=None, timeout=None, stdin=None):
    t0 = time.time()
    try:
        p = subprocess.run(cmd, cwd=cwd, env=env, timeout=timeout, input=stdin, capture_output=True, text=True,
                           shell=isinstance(cmd, str))
        return p.returncode, p.stdout, p.stderr, time.time() - t0
    except subprocess.TimeoutExpired as e:
        return 124, (e.stdout or b'').decode() if isinstance(e.stdout, bytes) else (e.stdout or ''), 'TIMEOUT', time.time() - t0


def write_if_changed(path, content):
    try:
        if open(path).read() == content:
            return False
    except FileNotFoundError:
        pass
    os.makedirs(os.path.dirname(path), exist_ok=True)
    with open(path, 'w') as f:
        f.write(content)
    return True


def coq_project():
    """(re)generate _CoqProject and Makefile when the set of .v files changed"""
    files = []
    for d in ('Generated', 'Model', 'Proofs', 'Properties'):
        files += sorted(glob.glob(f'{COQ}/{d}/*.v'))
    rel = [os.path.relpath(f, COQ) for f in files]
    content = '-Q . Rapid\n-arg -w -arg -abstract-large-number\n' + '\n'.join(rel) + '\n'
    changed = write_if_changed(COQ + '/_CoqProject', content)
    if changed or not os.path.exists(COQ + '/Makefile'):
        rc, out, err, _ = sh(['coq_makefile', '-f', '_CoqProject', '-o', 'Makefile'], cwd=COQ)
        if rc != 0:
            raise RuntimeError('coq_makefile failed: ' + err)


def build_tools():
    """go build the harness and the translator against /repo's current working tree"""
    os.makedirs(BUILD, exist_ok=True)
    for name, d in (('harness', VERIF + '/harness'), ('extract', VERIF + '/extract')):
        if not os.path.exists(d + '/go.mod'):
            continue
        rc, out, err, dt = sh(['go', 'build', '-tags', 'verif', '-o', f'{BUILD}/{name}', '.'], cwd=d, env=GOENV, timeout=600)
        if rc != 0:
            return False, f'go build {name} failed:\n{out}\n{err}'
    return True, ''


def regen():
    """regenerate coq/Generated/*.v from /repo (content-compared, so make stays incremental)"""
    msgs = []
    if os.path.exists(f'{BUILD}/extract'):
        rc, out, err, _ = sh([f'{BUILD}/extract', '-repo', REPO, '-out', COQ + '/Generated'], timeout=300)
        if rc != 0:
            return False, 'translator failed: ' + out + err
        msgs.append(out.strip())
    tmp = f'{BUILD}/GeomTable.v.new'
    rc, out, err, _ = sh([f'{BUILD}/harness', 'geomtab', '-out', tmp], timeout=300)
    if rc != 0:
        return False, 'geomtab failed: ' + out + err
    write_if_changed(COQ + '/Generated/GeomTable.v', open(tmp).read())
    return True, '\n'.join(msgs)


class Ctx:
    def __init__(self, pid, tier):
        self.id = pid
        self.tier = tier
        self.seed = int(os.environ.get('VERIF_SEED', '1') or '1')
        self.t0 = time.time()
        self.work = f'{VERIF}/work/{pid}'
        shutil.rmtree(self.work, ignore_errors=True)
        os.makedirs(self.work, exist_ok=True)
        self.obligations = []      # theorem names
        self.assumptions = {}      # theorem -> text
        self.brokens = []          # (kind, what, detail)
        self.failing = []          # (signature, what, replay dict)
        self.notes = []
        self.partial = []
        self.cov = {}
        self.known = json.load(open(VERIF + '/known_findings.json')) if os.path.exists(VERIF + '/known_findings.json') else {'findings': []}
        self.ready = False

    # ---------- preparation ----------
    def prepare(self):
        ok, msg = build_tools()
        if not ok:
            self.broken('build', 'harness does not build against /repo with -tags verif', msg)
            return False
        ok, msg = regen()
        if not ok:
            # the tie is broken (reported as such); the checks still run - on the last good Generated/*.v - because the
            # oracles on the implementation are what finds the concrete failing input
            self.broken('translation', 'Generated/*.v could not be regenerated from /repo', msg)
        coq_project()
        self.ready = True
        return True

    def make(self, targets, timeout=3000):
        rc, out, err, dt = sh(['make', '-j16'] + targets, cwd=COQ, timeout=timeout)
        return rc == 0, out + err

    def hygiene(self):
        bad = []
        for d in ('Generated', 'Model', 'Proofs', 'Properties'):
            for f in glob.glob(f'{COQ}/{d}/*.v'):
                src = re.sub(r'\(\*.*?\*\)', '', open(f).read(), flags=re.S)
                for m in re.finditer(FORBIDDEN, src):
                    bad.append(f'{os.path.relpath(f, COQ)}: {m.group(0)}')
        return bad

    def prove(self, prop):
        """build and re-check coq/Properties/<prop>.v; returns True when every obligation is discharged"""
        vfile = f'Properties/{prop}.v'
        src = open(f'{COQ}/{vfile}').read()
        thms = re.findall(r'^\s*(?:Theorem|Lemma|Corollary|Example)\s+(\w+)', src, flags=re.M)
        self.obligations += thms
        bad = self.hygiene()
        if bad:
            self.broken('obligation', 'forbidden construct in the development', '\n'.join(bad))
            return False
        # dependencies through make (incremental; only what Generated/*.v invalidated is rebuilt)
        rc, out, err, _ = sh(['coqdep', '-Q', '.', 'Rapid', vfile], cwd=COQ)
        deps = [d for d in re.findall(r'(\S+\.vo)\b', out.split(':', 1)[1] if ':' in out else '') if not d.startswith('Properties/' + prop + '.')]
        ok, log = self.make(deps)
        if not ok:
            m = re.search(r'File "\./([^"]+)", line (\d+)[^\n]*\n(.*?)(?:\nmake|\Z)', log, flags=re.S)
            what = f'{m.group(1)}:{m.group(2)}' if m else 'make'
            self.broken('obligation', f'proof no longer checks: {what}', log[-3000:])
            return False
        rc, out, err, dt = sh(['coqc', '-Q', '.', 'Rapid', '-w', '-abstract-large-number', vfile], cwd=COQ, timeout=1800)
        if rc != 0:
            self.broken('obligation', f'{vfile} no longer checks', (out + err)[-3000:])
            return False
        # Print Assumptions output: one block per theorem, in order
        blocks = re.split(r'(?=Closed under the global context|Axioms:)', out)
        blocks = [b.strip() for b in blocks if b.strip().startswith(('Closed', 'Axioms'))]
        for i, t in enumerate([t for t in thms if re.search(r'Print Assumptions\s+' + t + r'\b', src)]):
            self.assumptions[t] = blocks[i] if i < len(blocks) else '?'
        for t, a in self.assumptions.items():
            if not a.startswith('Closed under the global context'):
                self.notes.append(f'{t} depends on: {a}')
        self.cov.setdefault('rechecked_this_run', []).append(vfile)
        if self.tier == 'thorough':
            # independent re-check of the compiled property module and everything it depends on
            rc, out, err, dt = sh(['coqchk', '-silent', '-o', '-Q', '.', 'Rapid', f'Rapid.Properties.{prop}'], cwd=COQ, timeout=3600)
            summary = re.sub(r'\s+', ' ', out[out.find('CONTEXT SUMMARY'):]).strip() if 'CONTEXT SUMMARY' in out else (out + err)[-500:]
            self.cov['coqchk'] = {'seconds': round(dt, 1), 'summary': summary[:600]}
            if rc != 0 or 'Axioms: <none>' not in summary:
                self.broken('obligation', f'coqchk does not accept Rapid.Properties.{prop} with an empty axiom list', (out + err)[-3000:])
                return False
        return True

    # ---------- harness / model ----------
    def harness(self, *args, timeout=1200, cwd=None, env=None):
        rc, out, err, dt = sh([f'{BUILD}/harness'] + [str(a) for a in args], timeout=timeout, cwd=cwd, env=env)
        return rc, out, err

    def coq_cases(self, vfile, name, timeout=1800):
        """compile a generated case file; returns (ok, mismatch_text) where ok means the printed list is []"""
        rc, out, err, dt = sh(['coqc', '-Q', '.', 'Rapid', '-w', '-abstract-large-number', vfile], cwd=COQ, timeout=timeout)
        for ext in ('.vo', '.glob', '.vok', '.vos'):
            try:
                os.remove(COQ + '/' + vfile[:-2] + ext)
            except OSError:
                pass
        aux = COQ + '/' + os.path.dirname(vfile) + '/.' + os.path.basename(vfile)[:-2] + '.aux'
        try:
            os.remove(aux)
        except OSError:
            pass
        if rc != 0:
            return None, (out + err)[-3000:]
        m = re.search(name + r'_M\s*=\s*(.*?)\n\s*:\s*list', out, flags=re.S)
        if not m:
            return None, out[-2000:]
        txt = re.sub(r'\s+', ' ', m.group(1)).strip()
        return txt == '[]', txt

    # ---------- verdict bookkeeping ----------
    def broken(self, kind, what, detail=''):
        self.brokens.append((kind, what, detail))

    def fail_input(self, signature, what, replay):
        self.failing.append((signature, what, replay))

    def known_match(self, signature):
        for f in self.known.get('findings', []):
            if f.get('property') == self.id and f.get('status', 'open') == 'open' and re.fullmatch(f['signature'], signature):
                return f
        return None

    def finish(self, level='proof', evaluations=0, distinct=0, rule='', samples=None, extra=None, assumptions=None):
        os.makedirs(VERIF + '/evidence/replays', exist_ok=True)
        rc = 0
        lines = []
        n_viol = 0
        seen_known = set()
        new_fail = []
        for sig, what, replay in self.failing:
            k = self.known_match(sig)
            if k:
                if k['signature'] not in seen_known:
                    seen_known.add(k['signature'])
                    lines.append(f'KNOWN-FINDING: property={self.id} {k["what"]}')
            else:
                new_fail.append((sig, what, replay))
        if new_fail:
            sig, what, replay = new_fail[0]
            path = f'{VERIF}/evidence/replays/{self.id}-{hashlib.sha1(sig.encode()).hexdigest()[:8]}.json'
            json.dump({'property': self.id, 'signature': sig, 'what': what, 'replay': replay,
                       'broken': [(k, w) for k, w, _ in self.brokens]}, open(path, 'w'), indent=1, default=str)
            lines.append(f'VIOLATION property={self.id} replay={path}')
            n_viol = len(new_fail)
            rc = 1
        elif self.brokens:
            kind, what, detail = self.brokens[0]
            path = f'{VERIF}/evidence/replays/{self.id}-broken-{kind}.json'
            json.dump({'property': self.id, 'no_longer_checks': what, 'kind': kind,
                       'all_broken': [(k, w) for k, w, _ in self.brokens], 'detail': detail[-6000:],
                       'note': 'the violation search found no input on which the property itself fails'},
                      open(path, 'w'), indent=1)
            lines.append(f'VIOLATION property={self.id} replay={path} no-failing-input-found')
            n_viol = 1
            rc = 1
        cov = dict(self.cov)
        cov.update({
            'obligations': max(len(self.obligations), 1),
            'discharged': max(len(self.obligations), 1) if not any(k == 'obligation' for k, _, _ in self.brokens) else 0,
            'checker_cmd': f'cd /verif/coq && make -j16 <deps> && coqc -Q . Rapid Properties/{self.id}.v (full .vo build; hygiene grep; Print Assumptions)',
            'trusted_base': TRUSTED_BASE_COMMON + [f'{t}: {a}' for t, a in self.assumptions.items()],
            'theorems': self.obligations,
            'rule': rule,
            'samples': samples or ['(none)'],
            'partial': self.partial,
            'notes': self.notes,
            'broken': [(k, w) for k, w, _ in self.brokens],
        })
        # exploration-style counts only when this run measured them (proof-level evidence does not need them)
        if int(evaluations) >= 1:
            cov['evaluations'] = int(evaluations)
        if int(distinct) >= 2:
            cov['distinct_nontrivial'] = int(distinct)
        if extra:
            cov.update(extra)
        ev = {'property_id': self.id, 'tier': self.tier, 'seed': self.seed, 'level': level, 'coverage': cov,
              'assumptions': assumptions or [], 'wall_s': round(time.time() - self.t0, 2), 'violations': n_viol}
        os.makedirs(VERIF + '/evidence', exist_ok=True)
        json.dump(ev, open(f'{VERIF}/evidence/{self.id}.json', 'w'), indent=1, default=str)
        for l in lines:
            print(l)
        sys.stdout.flush()
        return rc



def generic_replay(ctx, path):
    """re-run the recorded failing input against /repo's current tree: exit 1 + VIOLATION if it still fails, 0 if it
    no longer does.  Returns None when the replay file names no concrete input (a broken obligation or correspondence):
    the caller then re-runs the whole check."""
    if not os.path.exists(path):
        print(f'no such replay file: {path}')
        return 2
    r = json.load(open(path))
    print(json.dumps(r, indent=1)[:3000])
    cmd = r.get('replay', {}).get('cmd') if isinstance(r.get('replay'), dict) else None
    if not cmd:
        return None
    ok, msg = build_tools()
    if not ok:
        print(msg)
        print(f'VIOLATION property={ctx.id} replay={path} no-failing-input-found')
        return 1
    rc, out, err, _ = sh(cmd, cwd=VERIF, env=GOENV, timeout=1800)
    print(out[-3000:], err[-1500:])
    failing = rc != 0
    for line in reversed(out.strip().splitlines()):
        if line.startswith('{'):
            try:
                res = json.loads(line)
            except Exception:
                break
            for key in ('failures', 'violations', 'roundtrip_failures', 'name_failures', 'load_panics', 'problems'):
                if res.get(key):
                    failing = True
            for v in res.values():
                if isinstance(v, dict) and (v.get('failures') or v.get('violations')):
                    failing = True
            break
    if failing:
        print(f'VIOLATION property={ctx.id} replay={path}')
        return 1
    print('the recorded input no longer fails on the current tree')
    return 0
