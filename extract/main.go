// verifextract: the (deliberately dumb) translator of constants from /repo's working tree to
// coq/Generated/Consts.v.  Constants are copied by name; a missing name, a value of an unexpected
// shape, or disagreement between the two functions that build fail-file paths is an error (exit 1),
// i.e. a broken obligation for every property that depends on Consts.v.
//
// stdlib only: go/parser, go/ast, go/token, strconv.
package main

import (
	"flag"
	"fmt"
	"go/ast"
	"go/parser"
	"go/token"
	"os"
	"path/filepath"
	"sort"
	"strconv"
	"strings"
	"unicode/utf8"
)

func fatal(format string, args ...any) {
	fmt.Fprintf(os.Stderr, "extract: "+format+"\n", args...)
	os.Exit(1)
}

type pkg struct {
	fset   *token.FileSet
	files  []*ast.File
	consts map[string]ast.Expr     // package-level const name -> value expression
	vars   map[string]ast.Expr     // package-level var name -> value expression
	funcs  map[string]*ast.FuncDecl // top-level functions (no receiver)
}

func load(repo string) *pkg {
	p := &pkg{fset: token.NewFileSet(), consts: map[string]ast.Expr{}, vars: map[string]ast.Expr{}, funcs: map[string]*ast.FuncDecl{}}
	names, err := filepath.Glob(filepath.Join(repo, "*.go"))
	if err != nil {
		fatal("%v", err)
	}
	sort.Strings(names)
	for _, n := range names {
		base := filepath.Base(n)
		if strings.HasSuffix(base, "_test.go") || base == "verif_export.go" {
			continue
		}
		f, err := parser.ParseFile(p.fset, n, nil, 0)
		if err != nil {
			fatal("parse %s: %v", n, err)
		}
		if f.Name.Name != "rapid" {
			continue
		}
		p.files = append(p.files, f)
		for _, d := range f.Decls {
			switch d := d.(type) {
			case *ast.GenDecl:
				if d.Tok != token.CONST && d.Tok != token.VAR {
					continue
				}
				for _, s := range d.Specs {
					vs := s.(*ast.ValueSpec)
					for i, id := range vs.Names {
						if i < len(vs.Values) {
							if d.Tok == token.CONST {
								p.consts[id.Name] = vs.Values[i]
							} else {
								p.vars[id.Name] = vs.Values[i]
							}
						}
					}
				}
			case *ast.FuncDecl:
				if d.Recv == nil {
					p.funcs[d.Name.Name] = d
				}
			}
		}
	}
	if len(p.files) == 0 {
		fatal("no Go files of package rapid in %s", repo)
	}
	return p
}

func (p *pkg) intConst(name string) uint64 {
	e, ok := p.consts[name]
	if !ok {
		fatal("constant %s not found in /repo", name)
	}
	lit, ok := e.(*ast.BasicLit)
	if !ok || lit.Kind != token.INT {
		fatal("constant %s is not an integer literal", name)
	}
	v, err := strconv.ParseUint(lit.Value, 0, 64)
	if err != nil {
		fatal("constant %s: %v", name, err)
	}
	return v
}

func strLit(e ast.Expr) (string, bool) {
	lit, ok := e.(*ast.BasicLit)
	if !ok || lit.Kind != token.STRING {
		return "", false
	}
	s, err := strconv.Unquote(lit.Value)
	if err != nil {
		return "", false
	}
	return s, true
}

func (p *pkg) strConst(name string) string {
	e, ok := p.consts[name]
	if !ok {
		fatal("constant %s not found in /repo", name)
	}
	s, ok := strLit(e)
	if !ok {
		fatal("constant %s is not a string literal", name)
	}
	return s
}

// calls returns all calls of pkgname.fn inside function fname, in source order
func (p *pkg) calls(fname, pkgname, fn string) []*ast.CallExpr {
	fd, ok := p.funcs[fname]
	if !ok || fd.Body == nil {
		fatal("function %s not found in /repo", fname)
	}
	var out []*ast.CallExpr
	ast.Inspect(fd.Body, func(n ast.Node) bool {
		c, ok := n.(*ast.CallExpr)
		if !ok {
			return true
		}
		sel, ok := c.Fun.(*ast.SelectorExpr)
		if !ok {
			return true
		}
		id, ok := sel.X.(*ast.Ident)
		if ok && id.Name == pkgname && sel.Sel.Name == fn {
			out = append(out, c)
		}
		return true
	})
	return out
}

// sprintfFormat: the literal format string of the only fmt.Sprintf call in fname
func (p *pkg) sprintfFormat(fname string) string {
	cs := p.calls(fname, "fmt", "Sprintf")
	if len(cs) != 1 || len(cs[0].Args) < 1 {
		fatal("%s: expected exactly one fmt.Sprintf call, found %d", fname, len(cs))
	}
	s, ok := strLit(cs[0].Args[0])
	if !ok {
		fatal("%s: format of fmt.Sprintf is not a string literal", fname)
	}
	return s
}

// joinDirs: the leading string-literal arguments of the first filepath.Join call of fname
// (the one that builds the directory), which must be followed by exactly one non-literal argument
func (p *pkg) joinDirs(fname string) []string {
	cs := p.calls(fname, "filepath", "Join")
	if len(cs) == 0 {
		fatal("%s: no filepath.Join call", fname)
	}
	var dirs []string
	c := cs[0]
	i := 0
	for ; i < len(c.Args); i++ {
		s, ok := strLit(c.Args[i])
		if !ok {
			break
		}
		dirs = append(dirs, s)
	}
	if len(dirs) == 0 || i != len(c.Args)-1 {
		fatal("%s: filepath.Join(<literals>..., <name>) expected", fname)
	}
	return dirs
}

func (p *pkg) stringSliceVar(name string) []string {
	e, ok := p.vars[name]
	if !ok {
		fatal("variable %s not found in /repo", name)
	}
	cl, ok := e.(*ast.CompositeLit)
	if !ok {
		fatal("variable %s is not a composite literal", name)
	}
	var out []string
	for _, el := range cl.Elts {
		s, ok := strLit(el)
		if !ok {
			fatal("variable %s: element is not a string literal", name)
		}
		out = append(out, s)
	}
	return out
}

// coqString renders s as a Coq string literal.  Only printable ASCII is accepted (a Coq source file
// is UTF-8 and a string literal is a sequence of bytes; keeping to ASCII avoids any doubt).
func coqString(what, s string) string {
	var b strings.Builder
	b.WriteByte('"')
	for i := 0; i < len(s); i++ {
		c := s[i]
		if c < 0x20 || c > 0x7e {
			fatal("%s: %q contains a byte outside printable ASCII; not representable here", what, s)
		}
		if c == '"' {
			b.WriteString("\"\"")
		} else {
			b.WriteByte(c)
		}
	}
	b.WriteString("\"%string")
	return b.String()
}

func coqRunes(what, s string) string {
	if !utf8.ValidString(s) {
		fatal("%s: %q is not valid UTF-8", what, s)
	}
	var parts []string
	for _, r := range s {
		parts = append(parts, strconv.Itoa(int(r)))
	}
	return "[" + strings.Join(parts, "; ") + "]"
}

func main() {
	repo := flag.String("repo", "/repo", "repository to read")
	out := flag.String("out", "", "output directory (Consts.v is written there)")
	flag.Parse()
	if *out == "" {
		fatal("-out is required")
	}
	writeConsts(*repo, *out)
	writeUnicodeLD(*out)
	// other generated files (e.g. Locksets.v) are written by further calls added here
	if err := writeLocksets(*repo, *out); err != nil {
		fatal("locksets: %v", err)
	}
}

// writeConsts regenerates <out>/Consts.v (only rewritten when the content changes)
func writeConsts(repoDir, outDir string) {
	repo, out := &repoDir, &outDir
	p := load(*repo)

	var b strings.Builder
	b.WriteString("(* GENERATED from /repo by /verif/extract - do not edit; rewritten (only when the content changes) on every check. *)\n")
	b.WriteString("From Coq Require Import List NArith String.\nImport ListNotations.\n\n")
	for _, n := range []string{"small", "invalidChecksMult", "validActionTries", "exampleMaxTries"} {
		fmt.Fprintf(&b, "Definition c_%s : nat := %d.\n", n, p.intConst(n))
	}
	b.WriteString("\n(* persist.go *)\n")
	fmt.Fprintf(&b, "Definition c_rapidVersion : string := %s.\n", coqString("rapidVersion", p.strConst("rapidVersion")))
	fmt.Fprintf(&b, "Definition c_failfileTmpPattern : string := %s.\n", coqString("failfileTmpPattern", p.strConst("failfileTmpPattern")))
	fmt.Fprintf(&b, "Definition c_persistDirMode : N := %d%%N.\n", p.intConst("persistDirMode"))

	nameFmt := p.sprintfFormat("failFileName")
	patFmt := p.sprintfFormat("failFilePattern")
	d1, d2 := p.joinDirs("failFileName"), p.joinDirs("failFilePattern")
	if strings.Join(d1, "\x00") != strings.Join(d2, "\x00") {
		fatal("failFileName and failFilePattern build different directories: %q vs %q", d1, d2)
	}
	fmt.Fprintf(&b, "(* fmt.Sprintf format of the file name in failFileName, and of the glob pattern in failFilePattern *)\n")
	fmt.Fprintf(&b, "Definition c_failFileNameFmt : string := %s.\n", coqString("failFileName format", nameFmt))
	fmt.Fprintf(&b, "Definition c_failFilePatternFmt : string := %s.\n", coqString("failFilePattern format", patFmt))
	var ds []string
	for _, d := range d1 {
		ds = append(ds, coqString("fail file directory", d))
	}
	fmt.Fprintf(&b, "(* literal leading components of filepath.Join in both functions; the sanitized test name follows *)\n")
	fmt.Fprintf(&b, "Definition c_failDirParts : list string := [%s].\n", strings.Join(ds, "; "))
	var rs []string
	for _, r := range p.stringSliceVar("windowsReservedNames") {
		rs = append(rs, coqRunes("windowsReservedNames", r))
	}
	fmt.Fprintf(&b, "(* windowsReservedNames as lists of code points *)\n")
	fmt.Fprintf(&b, "Definition c_windowsReservedNames : list (list N) := [\n  %s]%%N.\n", strings.Join(rs, ";\n  "))

	path := filepath.Join(*out, "Consts.v")
	content := b.String()
	old, err := os.ReadFile(path)
	if err == nil && string(old) == content {
		fmt.Printf("Consts.v unchanged\n")
		return
	}
	if err := os.MkdirAll(*out, 0775); err != nil {
		fatal("%v", err)
	}
	if err := os.WriteFile(path, []byte(content), 0644); err != nil {
		fatal("%v", err)
	}
	fmt.Printf("Consts.v rewritten\n")
}
