// locksets.go: the (deliberately dumb and conservative) translator of the synchronisation
// structure of /repo's working tree to coq/Generated/Locksets.v.
//
// For the listed methods of *T, for the methods of *Generator[V], and for String/value of every
// generatorImpl type (every type with a method `value(t *T)`), it emits the accesses to the
// receiver's own fields (and to package-level variables) in source order, nested in the critical
// sections of the receiver's mutex and in the bodies of sync.Once.Do:
//
//	IAcc f w | IAtomic f w | ICall name | ILocked mu mode [..] | IOnce o [..]
//
// `defer x.mu.Unlock()` = the section lasts to the end of the function; deferred calls and
// closures are emitted at the end of the function in LIFO order; calls to methods of the same
// receiver, to methods of owned sub-objects (fields of a package struct type), and to package
// functions are inlined with the caller's lock state.  Anything not understood (a field passed by
// address, a sync primitive used in an unknown way, unbalanced locking, a closure or goroutine
// created under a lock, ...) becomes an *alarm row*: an unguarded write, which fails table_ok.
//
// Syntactic only (go/parser + go/ast); no go/types.
package main

import (
	"fmt"
	"go/ast"
	"go/parser"
	"go/token"
	"os"
	"path/filepath"
	"sort"
	"strings"
)

// ---------------------------------------------------------------------------------------------
// package facts
// ---------------------------------------------------------------------------------------------

type lsStruct struct {
	name     string
	fields   map[string]ast.Expr // field name -> type
	order    []string
	embedded []string // names of embedded fields (the type's base name)
}

type lsPkg struct {
	fset    *token.FileSet
	files   []*ast.File
	structs map[string]*lsStruct
	methods map[string]map[string]*ast.FuncDecl // receiver base type -> method -> decl
	funcs   map[string]*ast.FuncDecl
	vars    map[string]ast.Expr // package-level var -> type or initialiser expression (may be nil)
	varInit map[string]ast.Expr
	types   map[string]bool // every declared type name
}

func lsBaseType(e ast.Expr) string {
	switch x := e.(type) {
	case *ast.StarExpr:
		return lsBaseType(x.X)
	case *ast.Ident:
		return x.Name
	case *ast.IndexExpr:
		return lsBaseType(x.X)
	case *ast.IndexListExpr:
		return lsBaseType(x.X)
	case *ast.ParenExpr:
		return lsBaseType(x.X)
	}
	return ""
}

// "sync.RWMutex", "atomic.Bool", ... for selector types, "" otherwise
func lsQualType(e ast.Expr) string {
	switch x := e.(type) {
	case *ast.StarExpr:
		return lsQualType(x.X)
	case *ast.SelectorExpr:
		if id, ok := x.X.(*ast.Ident); ok {
			return id.Name + "." + x.Sel.Name
		}
	case *ast.IndexExpr:
		return lsQualType(x.X)
	case *ast.CompositeLit:
		return lsQualType(x.Type)
	}
	return ""
}

func lsRecv(fd *ast.FuncDecl) (typ, name string) {
	if fd.Recv == nil || len(fd.Recv.List) == 0 {
		return "", ""
	}
	f := fd.Recv.List[0]
	if len(f.Names) > 0 {
		name = f.Names[0].Name
	}
	return lsBaseType(f.Type), name
}

func lsLoad(repo string) (*lsPkg, error) {
	p := &lsPkg{fset: token.NewFileSet(), structs: map[string]*lsStruct{}, methods: map[string]map[string]*ast.FuncDecl{},
		funcs: map[string]*ast.FuncDecl{}, vars: map[string]ast.Expr{}, varInit: map[string]ast.Expr{}, types: map[string]bool{}}
	names, err := filepath.Glob(filepath.Join(repo, "*.go"))
	if err != nil {
		return nil, err
	}
	sort.Strings(names)
	for _, n := range names {
		base := filepath.Base(n)
		if strings.HasSuffix(base, "_test.go") {
			continue
		}
		src, err := os.ReadFile(n)
		if err != nil {
			return nil, err
		}
		// files behind the verification build tag are hooks, not part of the library
		head := string(src)
		if i := strings.Index(head, "\npackage "); i >= 0 {
			head = head[:i]
		}
		if strings.Contains(head, "//go:build verif") {
			continue
		}
		f, err := parser.ParseFile(p.fset, n, src, 0)
		if err != nil {
			return nil, err
		}
		if f.Name.Name != "rapid" {
			continue
		}
		p.files = append(p.files, f)
		for _, d := range f.Decls {
			switch d := d.(type) {
			case *ast.GenDecl:
				for _, s := range d.Specs {
					switch s := s.(type) {
					case *ast.TypeSpec:
						p.types[s.Name.Name] = true
						if st, ok := s.Type.(*ast.StructType); ok {
							ls := &lsStruct{name: s.Name.Name, fields: map[string]ast.Expr{}}
							for _, fl := range st.Fields.List {
								if len(fl.Names) == 0 {
									bn := lsBaseType(fl.Type)
									ls.embedded = append(ls.embedded, bn)
									ls.fields[bn] = fl.Type
									ls.order = append(ls.order, bn)
								}
								for _, id := range fl.Names {
									ls.fields[id.Name] = fl.Type
									ls.order = append(ls.order, id.Name)
								}
							}
							p.structs[s.Name.Name] = ls
						}
					case *ast.ValueSpec:
						if d.Tok != token.VAR {
							continue
						}
						for i, id := range s.Names {
							p.vars[id.Name] = s.Type
							if i < len(s.Values) {
								p.varInit[id.Name] = s.Values[i]
								if s.Type == nil {
									p.vars[id.Name] = s.Values[i]
								}
							}
						}
					}
				}
			case *ast.FuncDecl:
				if t, _ := lsRecv(d); t != "" {
					if p.methods[t] == nil {
						p.methods[t] = map[string]*ast.FuncDecl{}
					}
					p.methods[t][d.Name.Name] = d
				} else {
					p.funcs[d.Name.Name] = d
				}
			}
		}
	}
	if len(p.files) == 0 {
		return nil, fmt.Errorf("no Go files of package rapid in %s", repo)
	}
	return p, nil
}

// the struct that declares field `name` reachable from typ (directly or through embedded structs)
func (p *lsPkg) resolveField(typ, name string) (owner string, ft ast.Expr, ok bool) {
	st := p.structs[typ]
	if st == nil {
		return "", nil, false
	}
	if ft, ok := st.fields[name]; ok {
		return typ, ft, true
	}
	for _, e := range st.embedded {
		if o, ft, ok := p.resolveField(e, name); ok {
			return o, ft, true
		}
	}
	return "", nil, false
}

// the method `name` of typ, possibly promoted from an embedded struct; via = embedded field path
func (p *lsPkg) resolveMethod(typ, name string) (owner string, fd *ast.FuncDecl, ok bool) {
	if fd, ok := p.methods[typ][name]; ok {
		return typ, fd, true
	}
	if st := p.structs[typ]; st != nil {
		for _, e := range st.embedded {
			if o, fd, ok := p.resolveMethod(e, name); ok {
				return o, fd, true
			}
		}
	}
	return "", nil, false
}

// ---------------------------------------------------------------------------------------------
// events
// ---------------------------------------------------------------------------------------------

type lsEv struct {
	kind  string // acq rel acc atomic call obegin oend
	field string // field / mutex / once (qualified "Type.field" or "pkg.var")
	write bool
	mode  string // R W
	name  string // call name
}

type lsAlarm struct {
	field, reason string
}

type lsItem struct {
	ev   lsEv
	body []*lsItem // for locked / once
}

type lsWalker struct {
	p       *lsPkg
	typ     string // receiver type of the function being walked ("" = none)
	recv    string // receiver identifier ("" = none / shadowed)
	out     *[]lsEv
	alarms  *[]lsAlarm
	depth   *int // number of open critical sections / once bodies (shared over inlining)
	stack   []string
	locals  map[string]bool
	defers  []func()
	visited map[string]bool // package functions already followed for globals in this row
}

func (w *lsWalker) emit(e lsEv) {
	if e.kind == "call" && w.typ == "" {
		return // a body followed only for its accesses to package variables
	}
	*w.out = append(*w.out, e)
}

func (w *lsWalker) alarm(field, reason string, pos token.Pos) {
	ps := w.p.fset.Position(pos)
	*w.alarms = append(*w.alarms, lsAlarm{field, fmt.Sprintf("%s (%s:%d)", reason, filepath.Base(ps.Filename), ps.Line)})
}

func (w *lsWalker) sub(typ, recv string, key string) *lsWalker {
	return &lsWalker{p: w.p, typ: typ, recv: recv, out: w.out, alarms: w.alarms, depth: w.depth,
		stack: append(append([]string{}, w.stack...), key), locals: map[string]bool{}, visited: w.visited}
}

func (w *lsWalker) onStack(key string) bool {
	for _, s := range w.stack {
		if s == key {
			return true
		}
	}
	return false
}

// recv.f  ->  (owner-qualified field, its type)
func (w *lsWalker) recvField(e ast.Expr) (string, ast.Expr, bool) {
	s, ok := e.(*ast.SelectorExpr)
	if !ok || w.recv == "" {
		return "", nil, false
	}
	id, ok := s.X.(*ast.Ident)
	if !ok || id.Name != w.recv {
		return "", nil, false
	}
	owner, ft, ok := w.p.resolveField(w.typ, s.Sel.Name)
	if !ok {
		return "", nil, false
	}
	return owner + "." + s.Sel.Name, ft, true
}

func (w *lsWalker) pkgVar(e ast.Expr) (string, ast.Expr, bool) {
	id, ok := e.(*ast.Ident)
	if !ok || w.locals[id.Name] || id.Name == w.recv {
		return "", nil, false
	}
	t, ok := w.p.vars[id.Name]
	if !ok {
		return "", nil, false
	}
	return "pkg." + id.Name, t, true
}

var lsBuiltins = map[string]bool{"len": true, "cap": true, "append": true, "make": true, "new": true, "panic": true,
	"recover": true, "copy": true, "delete": true, "print": true, "println": true, "min": true, "max": true, "clear": true,
	"string": true, "int": true, "int8": true, "int16": true, "int32": true, "int64": true, "uint": true, "uint8": true,
	"uint16": true, "uint32": true, "uint64": true, "uintptr": true, "float32": true, "float64": true, "byte": true,
	"rune": true, "bool": true, "any": true, "complex64": true, "complex128": true, "error": true}

// sync-ish field used through a method call: recv.f.M(args)
func (w *lsWalker) syncCall(field string, ft ast.Expr, meth string, call *ast.CallExpr) bool {
	qt := lsQualType(ft)
	switch {
	case qt == "sync.RWMutex" || qt == "sync.Mutex":
		switch meth {
		case "Lock":
			w.emit(lsEv{kind: "acq", field: field, mode: "W"})
			*w.depth++
		case "RLock":
			w.emit(lsEv{kind: "acq", field: field, mode: "R"})
			*w.depth++
		case "Unlock":
			w.emit(lsEv{kind: "rel", field: field, mode: "W"})
			*w.depth--
		case "RUnlock":
			w.emit(lsEv{kind: "rel", field: field, mode: "R"})
			*w.depth--
		default:
			w.alarm(field, "mutex used through "+meth, call.Pos())
		}
		return true
	case strings.HasPrefix(qt, "atomic."):
		for _, a := range call.Args {
			w.expr(a, false)
		}
		switch meth {
		case "Load":
			w.emit(lsEv{kind: "atomic", field: field, write: false})
		case "Store", "Swap", "CompareAndSwap", "Add", "And", "Or":
			w.emit(lsEv{kind: "atomic", field: field, write: true})
		default:
			w.alarm(field, "atomic used through "+meth, call.Pos())
		}
		return true
	case qt == "sync.Map":
		for _, a := range call.Args {
			w.expr(a, false)
		}
		switch meth {
		case "Load":
			w.emit(lsEv{kind: "atomic", field: field, write: false})
		case "Store", "LoadOrStore", "LoadAndDelete", "Delete", "Swap", "CompareAndSwap", "CompareAndDelete":
			w.emit(lsEv{kind: "atomic", field: field, write: true})
		case "Range":
			w.emit(lsEv{kind: "atomic", field: field, write: false})
		default:
			w.alarm(field, "sync.Map used through "+meth, call.Pos())
		}
		return true
	case qt == "sync.Once":
		if meth != "Do" || len(call.Args) != 1 {
			w.alarm(field, "sync.Once used through "+meth, call.Pos())
			return true
		}
		w.emit(lsEv{kind: "obegin", field: field})
		*w.depth++
		if fl, ok := call.Args[0].(*ast.FuncLit); ok {
			w.funcBody(fl.Body)
		} else {
			w.expr(call.Args[0], false)
			w.emit(lsEv{kind: "call", name: "once function"})
		}
		*w.depth--
		w.emit(lsEv{kind: "oend", field: field})
		return true
	case strings.HasPrefix(qt, "sync."):
		w.alarm(field, "unknown synchronisation primitive "+qt, call.Pos())
		return true
	}
	return false
}

func (w *lsWalker) isSyncType(ft ast.Expr) bool {
	qt := lsQualType(ft)
	return strings.HasPrefix(qt, "sync.") || strings.HasPrefix(qt, "atomic.")
}

func (w *lsWalker) access(field string, ft ast.Expr, write bool, pos token.Pos) {
	if w.isSyncType(ft) {
		// a bare mention of a mutex / atomic / once (copied, passed, address taken)
		w.alarm(field, "synchronisation object used as a value", pos)
		return
	}
	w.emit(lsEv{kind: "acc", field: field, write: write})
}

func lsCallName(e ast.Expr) string {
	switch x := e.(type) {
	case *ast.Ident:
		return x.Name
	case *ast.SelectorExpr:
		return lsCallName(x.X) + "." + x.Sel.Name
	case *ast.CallExpr:
		return lsCallName(x.Fun) + "()"
	case *ast.IndexExpr:
		return lsCallName(x.X)
	case *ast.IndexListExpr:
		return lsCallName(x.X)
	case *ast.ParenExpr:
		return lsCallName(x.X)
	case *ast.TypeAssertExpr:
		return lsCallName(x.X) + ".(type)"
	case *ast.FuncLit:
		return "func literal"
	}
	return "?"
}

// inline the body of fd (a method of typ with receiver name rn, or a package function whose
// parameter rn stands for the caller's receiver; rn == "" = follow for package variables only)
func (w *lsWalker) inline(typ, rn string, fd *ast.FuncDecl, key string, pos token.Pos) {
	if fd.Body == nil {
		return
	}
	if w.onStack(key) || len(w.stack) > 12 {
		if *w.depth > 0 {
			w.alarm(typ+".<call>", "recursive call of "+key+" inside a critical section", pos)
		}
		w.emit(lsEv{kind: "call", name: key + " (recursive)"})
		return
	}
	s := w.sub(typ, rn, key)
	s.collectLocals(fd)
	s.funcBody(fd.Body)
}

func (w *lsWalker) collectLocals(fd *ast.FuncDecl) {
	add := func(fl *ast.FieldList) {
		if fl == nil {
			return
		}
		for _, f := range fl.List {
			for _, id := range f.Names {
				w.locals[id.Name] = true
			}
		}
	}
	add(fd.Type.Params)
	add(fd.Type.Results)
	ast.Inspect(fd.Body, func(n ast.Node) bool {
		switch x := n.(type) {
		case *ast.AssignStmt:
			if x.Tok == token.DEFINE {
				for _, l := range x.Lhs {
					if id, ok := l.(*ast.Ident); ok {
						w.locals[id.Name] = true
					}
				}
			}
		case *ast.RangeStmt:
			if x.Tok == token.DEFINE {
				for _, l := range []ast.Expr{x.Key, x.Value} {
					if id, ok := l.(*ast.Ident); ok {
						w.locals[id.Name] = true
					}
				}
			}
		case *ast.ValueSpec:
			for _, id := range x.Names {
				w.locals[id.Name] = true
			}
		case *ast.FuncLit:
			add(x.Type.Params)
			add(x.Type.Results)
		}
		return true
	})
	if w.recv != "" {
		delete(w.locals, w.recv)
	}
}

// a function body: statements, then the deferred calls in LIFO order
func (w *lsWalker) funcBody(b *ast.BlockStmt) {
	saved := w.defers
	w.defers = nil
	savedRecv := w.recv
	for _, st := range b.List {
		w.stmt(st)
	}
	for i := len(w.defers) - 1; i >= 0; i-- {
		w.defers[i]()
	}
	w.defers = saved
	w.recv = savedRecv
}

// a nested block must leave the lock state as it found it
func (w *lsWalker) block(b *ast.BlockStmt) {
	if b == nil {
		return
	}
	w.stmts(b.List, b.Pos())
}

func (w *lsWalker) stmts(l []ast.Stmt, pos token.Pos) {
	d0 := *w.depth
	nd := len(w.defers)
	savedRecv := w.recv
	for _, st := range l {
		w.stmt(st)
	}
	if *w.depth != d0 {
		w.alarm(w.typ+".<locking>", "a branch or loop body changes the lock state", pos)
	}
	if len(w.defers) != nd {
		w.alarm(w.typ+".<locking>", "defer inside a branch or loop body", pos)
	}
	w.recv = savedRecv
}

func (w *lsWalker) call(x *ast.CallExpr) {
	switch f := x.Fun.(type) {
	case *ast.SelectorExpr:
		// recv.f.M(args): synchronisation objects, owned sub-objects, other fields
		if field, ft, ok := w.recvField(f.X); ok {
			if w.syncCall(field, ft, f.Sel.Name, x) {
				return
			}
			w.access(field, ft, false, f.X.Pos())
			for _, a := range x.Args {
				w.expr(a, false)
			}
			bt := lsBaseType(ft)
			if _, isStruct := w.p.structs[bt]; isStruct && lsQualType(ft) == "" && bt != "Generator" && bt != "T" && bt != w.typ {
				if owner, md, ok := w.p.resolveMethod(bt, f.Sel.Name); ok {
					_, rn := lsRecv(md)
					w.inline(owner, rn, md, owner+"."+f.Sel.Name, x.Pos())
					return
				}
			}
			w.followByName(f.Sel.Name, x.Pos())
			w.emit(lsEv{kind: "call", name: lsCallName(x.Fun)})
			return
		}
		// pkgvar.M(args)
		if field, ft, ok := w.pkgVar(f.X); ok {
			if w.syncCall(field, ft, f.Sel.Name, x) {
				return
			}
			w.access(field, ft, false, f.X.Pos())
			for _, a := range x.Args {
				w.expr(a, false)
			}
			w.followByName(f.Sel.Name, x.Pos())
			w.emit(lsEv{kind: "call", name: lsCallName(x.Fun)})
			return
		}
		// recv.M(args)
		if id, ok := f.X.(*ast.Ident); ok && w.recv != "" && id.Name == w.recv {
			for _, a := range x.Args {
				w.expr(a, false)
			}
			if owner, md, ok := w.p.resolveMethod(w.typ, f.Sel.Name); ok {
				_, rn := lsRecv(md)
				w.inline(owner, rn, md, owner+"."+f.Sel.Name, x.Pos())
				return
			}
			if owner, ft, ok := w.p.resolveField(w.typ, f.Sel.Name); ok { // a field of function type
				w.access(owner+"."+f.Sel.Name, ft, false, f.Pos())
				w.emit(lsEv{kind: "call", name: lsCallName(x.Fun)})
				return
			}
			// promoted from an embedded non-struct (interface) field
			if st := w.p.structs[w.typ]; st != nil && len(st.embedded) > 0 {
				for _, e := range st.embedded {
					w.access(w.typ+"."+e, st.fields[e], false, f.Pos())
				}
				w.emit(lsEv{kind: "call", name: st.embedded[0] + "." + f.Sel.Name})
				return
			}
			w.alarm(w.typ+".<call>", "unknown method "+f.Sel.Name+" of the receiver", x.Pos())
			return
		}
		// imported package function or a method on something else
		w.expr(f.X, false)
		for _, a := range x.Args {
			w.expr(a, false)
		}
		if id, ok := f.X.(*ast.Ident); ok && !w.locals[id.Name] && w.p.vars[id.Name] == nil && !w.p.types[id.Name] {
			if id.Name != w.recv {
				w.emit(lsEv{kind: "call", name: lsCallName(x.Fun)}) // pkg.Func
				return
			}
		}
		w.followByName(f.Sel.Name, x.Pos())
		w.emit(lsEv{kind: "call", name: lsCallName(x.Fun)})
	case *ast.Ident:
		if lsBuiltins[f.Name] || (w.p.types[f.Name] && !w.locals[f.Name]) {
			for _, a := range x.Args {
				w.expr(a, false)
			}
			return
		}
		if fd, ok := w.p.funcs[f.Name]; ok && !w.locals[f.Name] {
			// package function: if the receiver is passed, the parameter is an alias of it
			alias := ""
			pi := 0
			var params []string
			if fd.Type.Params != nil {
				for _, fl := range fd.Type.Params.List {
					for _, id := range fl.Names {
						params = append(params, id.Name)
					}
				}
			}
			for _, a := range x.Args {
				if id, ok := a.(*ast.Ident); ok && w.recv != "" && id.Name == w.recv {
					if pi < len(params) {
						alias = params[pi]
					} else {
						w.alarm(w.typ+".<call>", "receiver passed as a variadic argument of "+f.Name, x.Pos())
					}
				} else {
					w.expr(a, false)
				}
				pi++
			}
			if alias != "" {
				w.inline(w.typ, alias, fd, "func "+f.Name, x.Pos())
			} else {
				key := "func " + f.Name
				if !w.visited[key] {
					w.visited[key] = true
					w.inline("", "", fd, key, x.Pos())
				}
			}
			return
		}
		for _, a := range x.Args {
			w.expr(a, false)
		}
		if w.locals[f.Name] {
			w.emit(lsEv{kind: "call", name: f.Name}) // a local function value
		} // otherwise a conversion to a type parameter
	case *ast.FuncLit:
		for _, a := range x.Args {
			w.expr(a, false)
		}
		w.funcBody(f.Body) // immediately invoked
	case *ast.IndexExpr: // generic instantiation f[T](args)
		y := *x
		y.Fun = f.X
		w.call(&y)
	case *ast.IndexListExpr:
		y := *x
		y.Fun = f.X
		w.call(&y)
	case *ast.ParenExpr:
		y := *x
		y.Fun = f.X
		w.call(&y)
	default:
		w.expr(x.Fun, false)
		for _, a := range x.Args {
			w.expr(a, false)
		}
		w.emit(lsEv{kind: "call", name: lsCallName(x.Fun)})
	}
}

// a method call on a value whose type is not known syntactically: look into every method of that
// name in the package, for accesses to package-level variables only
func (w *lsWalker) followByName(meth string, pos token.Pos) {
	var tns []string
	for tn := range w.p.methods {
		tns = append(tns, tn)
	}
	sort.Strings(tns)
	for _, tn := range tns {
		if md, ok := w.p.methods[tn][meth]; ok {
			key := tn + "." + meth + " (by name)"
			if w.visited[key] || tn == "T" || tn == "Generator" {
				continue
			}
			w.visited[key] = true
			w.inline("", "", md, key, pos)
		}
	}
}

func (w *lsWalker) expr(e ast.Expr, write bool) {
	if e == nil {
		return
	}
	switch x := e.(type) {
	case *ast.Ident:
		if field, ft, ok := w.pkgVar(x); ok {
			w.access(field, ft, write, x.Pos())
		}
	case *ast.SelectorExpr:
		if field, ft, ok := w.recvField(x); ok {
			w.access(field, ft, write, x.Pos())
			return
		}
		if id, ok := x.X.(*ast.Ident); ok && w.recv != "" && id.Name == w.recv {
			// recv.method as a value: it will be called by whoever receives it
			if owner, md, ok := w.p.resolveMethod(w.typ, x.Sel.Name); ok {
				_, rn := lsRecv(md)
				w.inline(owner, rn, md, owner+"."+x.Sel.Name, x.Pos())
				return
			}
			w.alarm(w.typ+".<unknown>", "unknown selector "+x.Sel.Name+" on the receiver", x.Pos())
			return
		}
		// a.b.c: the innermost receiver field / package variable is what is read or written
		w.expr(x.X, write)
	case *ast.CallExpr:
		w.call(x)
	case *ast.FuncLit:
		// a closure used as a value: it may run at any later time
		if *w.depth > 0 {
			w.alarm(w.typ+".<closure>", "closure created inside a critical section or Once", x.Pos())
		}
		w.funcBody(x.Body)
	case *ast.UnaryExpr:
		if x.Op == token.AND {
			if field, _, ok := w.recvField(x.X); ok {
				w.alarm(field, "address of field taken", x.Pos())
				return
			}
			if field, _, ok := w.pkgVar(x.X); ok {
				w.alarm(field, "address of package variable taken", x.Pos())
				return
			}
			w.expr(x.X, true)
			return
		}
		w.expr(x.X, false)
	case *ast.BinaryExpr:
		w.expr(x.X, false)
		w.expr(x.Y, false)
	case *ast.ParenExpr:
		w.expr(x.X, write)
	case *ast.IndexExpr:
		w.expr(x.X, write)
		w.expr(x.Index, false)
	case *ast.IndexListExpr:
		w.expr(x.X, write)
	case *ast.SliceExpr:
		w.expr(x.X, write)
		w.expr(x.Low, false)
		w.expr(x.High, false)
		w.expr(x.Max, false)
	case *ast.StarExpr:
		w.expr(x.X, write)
	case *ast.TypeAssertExpr:
		w.expr(x.X, false)
	case *ast.CompositeLit:
		for _, el := range x.Elts {
			w.expr(el, false)
		}
	case *ast.KeyValueExpr:
		if _, isIdent := x.Key.(*ast.Ident); !isIdent {
			w.expr(x.Key, false)
		}
		w.expr(x.Value, false)
	}
}

func (w *lsWalker) shadowCheck(lhs []ast.Expr, tok token.Token) {
	if tok != token.DEFINE || w.recv == "" {
		return
	}
	for _, l := range lhs {
		if id, ok := l.(*ast.Ident); ok && id.Name == w.recv {
			w.recv = "" // shadowed until the end of the enclosing block
		}
	}
}

func (w *lsWalker) stmt(st ast.Stmt) {
	switch x := st.(type) {
	case nil:
	case *ast.ExprStmt:
		w.expr(x.X, false)
	case *ast.AssignStmt:
		for _, r := range x.Rhs {
			w.expr(r, false)
		}
		if x.Tok != token.ASSIGN && x.Tok != token.DEFINE { // op=
			for _, l := range x.Lhs {
				w.expr(l, false)
			}
		}
		for _, l := range x.Lhs {
			if id, ok := l.(*ast.Ident); ok && w.recv != "" && id.Name == w.recv && x.Tok == token.ASSIGN {
				w.alarm(w.typ+".<receiver>", "receiver variable reassigned", x.Pos())
			}
			w.expr(l, true)
		}
		w.shadowCheck(x.Lhs, x.Tok)
	case *ast.IncDecStmt:
		w.expr(x.X, false)
		w.expr(x.X, true)
	case *ast.DeferStmt:
		call := x.Call
		for _, a := range call.Args {
			w.expr(a, false) // arguments are evaluated now
		}
		c := *call
		c.Args = nil
		recv := w.recv
		w.defers = append(w.defers, func() {
			saved := w.recv
			w.recv = recv
			w.call(&c)
			w.recv = saved
		})
	case *ast.ReturnStmt:
		for _, r := range x.Results {
			w.expr(r, false)
		}
	case *ast.IfStmt:
		saved := w.recv
		w.stmt(x.Init)
		w.expr(x.Cond, false)
		w.block(x.Body)
		if x.Else != nil {
			w.stmts([]ast.Stmt{x.Else}, x.Else.Pos())
		}
		w.recv = saved
	case *ast.BlockStmt:
		w.block(x)
	case *ast.ForStmt:
		saved := w.recv
		w.stmt(x.Init)
		w.expr(x.Cond, false)
		w.block(x.Body)
		w.stmt(x.Post)
		w.recv = saved
	case *ast.RangeStmt:
		saved := w.recv
		w.expr(x.X, false)
		if x.Tok == token.ASSIGN {
			w.expr(x.Key, true)
			w.expr(x.Value, true)
		}
		w.shadowCheck([]ast.Expr{x.Key, x.Value}, x.Tok)
		w.block(x.Body)
		w.recv = saved
	case *ast.SwitchStmt:
		saved := w.recv
		w.stmt(x.Init)
		w.expr(x.Tag, false)
		for _, c := range x.Body.List {
			cc := c.(*ast.CaseClause)
			for _, e := range cc.List {
				w.expr(e, false)
			}
			w.stmts(cc.Body, cc.Pos())
		}
		w.recv = saved
	case *ast.TypeSwitchStmt:
		saved := w.recv
		w.stmt(x.Init)
		w.stmt(x.Assign)
		for _, c := range x.Body.List {
			w.stmts(c.(*ast.CaseClause).Body, c.Pos())
		}
		w.recv = saved
	case *ast.SelectStmt:
		w.alarm(w.typ+".<select>", "select statement", x.Pos())
	case *ast.GoStmt:
		w.alarm(w.typ+".<go>", "go statement", x.Pos())
		w.expr(x.Call, false)
	case *ast.SendStmt:
		w.expr(x.Chan, false)
		w.expr(x.Value, false)
	case *ast.LabeledStmt:
		w.stmt(x.Stmt)
	case *ast.DeclStmt:
		if gd, ok := x.Decl.(*ast.GenDecl); ok {
			for _, s := range gd.Specs {
				if vs, ok := s.(*ast.ValueSpec); ok {
					for _, v := range vs.Values {
						w.expr(v, false)
					}
					var lhs []ast.Expr
					for _, id := range vs.Names {
						lhs = append(lhs, id)
					}
					w.shadowCheck(lhs, token.DEFINE)
				}
			}
		}
	case *ast.BranchStmt, *ast.EmptyStmt:
	default:
		w.alarm(w.typ+".<stmt>", fmt.Sprintf("statement %T not understood", st), st.Pos())
	}
}

// ---------------------------------------------------------------------------------------------
// flat events -> nested items
// ---------------------------------------------------------------------------------------------

func lsNest(evs []lsEv, alarm func(field, reason string)) []*lsItem {
	type frame struct {
		open  *lsItem
		items []*lsItem
	}
	st := []*frame{{}}
	for _, e := range evs {
		top := st[len(st)-1]
		switch e.kind {
		case "acq", "obegin":
			st = append(st, &frame{open: &lsItem{ev: e}})
		case "rel", "oend":
			want := "acq"
			if e.kind == "oend" {
				want = "obegin"
			}
			if top.open == nil || top.open.ev.kind != want || top.open.ev.field != e.field || top.open.ev.mode != e.mode {
				alarm(e.field, "release without a matching acquisition in the same function (source order)")
				continue
			}
			top.open.body = top.items
			st = st[:len(st)-1]
			st[len(st)-1].items = append(st[len(st)-1].items, top.open)
		default:
			top.items = append(top.items, &lsItem{ev: e})
		}
	}
	for len(st) > 1 {
		top := st[len(st)-1]
		alarm(top.open.ev.field, "acquisition without a release before the end of the method")
		// conservative: what was inside counts as unprotected
		st = st[:len(st)-1]
		st[len(st)-1].items = append(st[len(st)-1].items, top.items...)
	}
	return st[0].items
}

// ---------------------------------------------------------------------------------------------
// rows, writes elsewhere, output
// ---------------------------------------------------------------------------------------------

type lsRow struct {
	name  string
	where string
	items []*lsItem
}

type lsTable struct {
	rows     []lsRow
	initOnly []string
}

type lsGen struct {
	p       *lsPkg
	fields  map[string]int
	forder  []string
	mutexes map[string]int
	morder  []string
	onces   map[string]int
	oorder  []string
}

func (g *lsGen) fid(f string) int {
	if i, ok := g.fields[f]; ok {
		return i
	}
	g.fields[f] = len(g.forder)
	g.forder = append(g.forder, f)
	return g.fields[f]
}
func (g *lsGen) mid(f string) int {
	if i, ok := g.mutexes[f]; ok {
		return i
	}
	g.mutexes[f] = len(g.morder)
	g.morder = append(g.morder, f)
	return g.mutexes[f]
}
func (g *lsGen) oid(f string) int {
	if i, ok := g.onces[f]; ok {
		return i
	}
	g.onces[f] = len(g.oorder)
	g.oorder = append(g.oorder, f)
	return g.onces[f]
}

func lsIdent(s string) string {
	var b strings.Builder
	for _, c := range s {
		if c >= 'a' && c <= 'z' || c >= 'A' && c <= 'Z' || c >= '0' && c <= '9' || c == '_' {
			b.WriteRune(c)
		} else {
			b.WriteByte('_')
		}
	}
	return b.String()
}

func lsCoqStr(s string) string {
	var b strings.Builder
	b.WriteByte('"')
	for i := 0; i < len(s); i++ {
		c := s[i]
		switch {
		case c == '"':
			b.WriteString("\"\"")
		case c < 0x20 || c > 0x7e:
			b.WriteByte('?')
		default:
			b.WriteByte(c)
		}
	}
	b.WriteByte('"')
	return b.String()
}

// walk one method (or synthesise the row of a method promoted from an embedded interface)
func (g *lsGen) row(typ, meth string) (lsRow, []lsAlarm, bool) {
	p := g.p
	var evs []lsEv
	var alarms []lsAlarm
	depth := 0
	name := typ + "." + meth
	owner, fd, ok := p.resolveMethod(typ, meth)
	if !ok {
		st := p.structs[typ]
		if st == nil || len(st.embedded) == 0 {
			return lsRow{}, nil, false
		}
		// promoted from the embedded interface value: a read of that field and a call through it
		e := st.embedded[0]
		evs = append(evs, lsEv{kind: "acc", field: typ + "." + e}, lsEv{kind: "call", name: e + "." + meth})
		return lsRow{name: name, where: "promoted from embedded " + e, items: lsNest(evs, func(string, string) {})}, nil, true
	}
	_, rn := lsRecv(fd)
	w := &lsWalker{p: p, typ: owner, recv: rn, out: &evs, alarms: &alarms, depth: &depth, stack: []string{owner + "." + meth},
		locals: map[string]bool{}, visited: map[string]bool{}}
	w.collectLocals(fd)
	if fd.Body != nil {
		w.funcBody(fd.Body)
	}
	items := lsNest(evs, func(field, reason string) { alarms = append(alarms, lsAlarm{field, reason + " in " + name}) })
	ps := p.fset.Position(fd.Pos())
	return lsRow{name: name, where: fmt.Sprintf("%s:%d", filepath.Base(ps.Filename), ps.Line), items: items}, alarms, true
}

func lsItemFields(items []*lsItem, acc map[string]bool, writes map[string]bool) {
	for _, it := range items {
		switch it.ev.kind {
		case "acc", "atomic":
			acc[it.ev.field] = true
			if it.ev.write {
				writes[it.ev.field] = true
			}
		}
		lsItemFields(it.body, acc, writes)
	}
}

// writes to fields of struct `typ` made anywhere in the package outside the listed methods:
// constructor context (composite literal; a variable freshly assigned from a new*/& literal in the
// same function before the write; functions named new<Typ>) does not count.
func (g *lsGen) foreignWrites(typ string, listed map[string]bool) map[string][]string {
	p := g.p
	res := map[string][]string{}
	isTyp := func(e ast.Expr) bool { return e != nil && lsBaseType(e) == typ && lsQualType(e) == "" }
	check := func(fname string, fd *ast.FuncDecl, rt string) {
		if fd.Body == nil {
			return
		}
		vars := map[string]token.Pos{} // identifiers of type *typ: position from which they denote a FRESH object (0 = not fresh)
		typed := map[string]bool{}
		if rt == typ {
			_, rn := lsRecv(fd)
			typed[rn] = true
		}
		if fd.Type.Params != nil {
			for _, fl := range fd.Type.Params.List {
				if isTyp(fl.Type) {
					for _, id := range fl.Names {
						typed[id.Name] = true
					}
				}
			}
		}
		fresh := func(e ast.Expr) bool {
			switch x := e.(type) {
			case *ast.CallExpr:
				n := lsCallName(x.Fun)
				return strings.HasPrefix(n, "new") && strings.EqualFold(n[3:], typ) || n == "new"+typ
			case *ast.UnaryExpr:
				if cl, ok := x.X.(*ast.CompositeLit); ok && x.Op == token.AND {
					return isTyp(cl.Type)
				}
			}
			return false
		}
		ast.Inspect(fd.Body, func(n ast.Node) bool {
			if as, ok := n.(*ast.AssignStmt); ok && len(as.Lhs) == len(as.Rhs) {
				for i, l := range as.Lhs {
					if id, ok := l.(*ast.Ident); ok && fresh(as.Rhs[i]) {
						typed[id.Name] = true
						if _, seen := vars[id.Name]; !seen {
							vars[id.Name] = as.Pos()
						}
					}
				}
			}
			return true
		})
		isConstructor := strings.EqualFold(fname, "new"+typ)
		note := func(target ast.Expr, pos token.Pos) {
			// strip index/slice/star/paren
			for {
				switch x := target.(type) {
				case *ast.IndexExpr:
					target = x.X
					continue
				case *ast.SliceExpr:
					target = x.X
					continue
				case *ast.StarExpr:
					target = x.X
					continue
				case *ast.ParenExpr:
					target = x.X
					continue
				}
				break
			}
			s, ok := target.(*ast.SelectorExpr)
			if !ok {
				return
			}
			id, ok := s.X.(*ast.Ident)
			if !ok || !typed[id.Name] {
				return
			}
			owner, _, ok := p.resolveField(typ, s.Sel.Name)
			if !ok {
				return
			}
			if isConstructor {
				return
			}
			if fp, ok := vars[id.Name]; ok && fp < pos {
				return // a fresh object, not yet shared
			}
			ps := p.fset.Position(pos)
			res[owner+"."+s.Sel.Name] = append(res[owner+"."+s.Sel.Name], fmt.Sprintf("%s (%s:%d)", fname, filepath.Base(ps.Filename), ps.Line))
		}
		ast.Inspect(fd.Body, func(n ast.Node) bool {
			switch x := n.(type) {
			case *ast.AssignStmt:
				for _, l := range x.Lhs {
					note(l, x.Pos())
				}
			case *ast.IncDecStmt:
				note(x.X, x.Pos())
			case *ast.UnaryExpr:
				if x.Op == token.AND {
					note(x.X, x.Pos())
				}
			}
			return true
		})
	}
	for _, f := range p.files {
		for _, d := range f.Decls {
			fd, ok := d.(*ast.FuncDecl)
			if !ok {
				continue
			}
			rt, _ := lsRecv(fd)
			name := fd.Name.Name
			if rt != "" {
				name = rt + "." + name
			}
			if listed[name] {
				continue
			}
			check(name, fd, rt)
		}
	}
	return res
}

// package variables written outside their declaration and init()
func (g *lsGen) globalWrites() map[string][]string {
	p := g.p
	res := map[string][]string{}
	for _, f := range p.files {
		for _, d := range f.Decls {
			fd, ok := d.(*ast.FuncDecl)
			if !ok || fd.Body == nil || (fd.Recv == nil && fd.Name.Name == "init") {
				continue
			}
			w := &lsWalker{p: p, locals: map[string]bool{}}
			w.collectLocals(fd)
			note := func(target ast.Expr, pos token.Pos) {
				for {
					switch x := target.(type) {
					case *ast.IndexExpr:
						target = x.X
						continue
					case *ast.SelectorExpr:
						target = x.X
						continue
					case *ast.StarExpr:
						target = x.X
						continue
					case *ast.ParenExpr:
						target = x.X
						continue
					}
					break
				}
				if id, ok := target.(*ast.Ident); ok && !w.locals[id.Name] {
					if _, ok := p.vars[id.Name]; ok {
						if rt, rn := lsRecv(fd); rt != "" && rn == id.Name {
							return
						}
						ps := p.fset.Position(pos)
						res["pkg."+id.Name] = append(res["pkg."+id.Name], fmt.Sprintf("%s (%s:%d)", fd.Name.Name, filepath.Base(ps.Filename), ps.Line))
					}
				}
			}
			ast.Inspect(fd.Body, func(n ast.Node) bool {
				switch x := n.(type) {
				case *ast.AssignStmt:
					if x.Tok != token.DEFINE {
						for _, l := range x.Lhs {
							note(l, x.Pos())
						}
					}
				case *ast.IncDecStmt:
					note(x.X, x.Pos())
				case *ast.UnaryExpr:
					if x.Op == token.AND {
						note(x.X, x.Pos())
					}
				}
				return true
			})
		}
	}
	return res
}

func (g *lsGen) table(specs [][2]string, comment *[]string) lsTable {
	var t lsTable
	listed := map[string]bool{}
	types := map[string]bool{}
	var alarms []lsAlarm
	for _, s := range specs {
		r, al, ok := g.row(s[0], s[1])
		if !ok {
			continue
		}
		listed[s[0]+"."+s[1]] = true
		types[s[0]] = true
		t.rows = append(t.rows, r)
		alarms = append(alarms, al...)
	}
	acc, writes := map[string]bool{}, map[string]bool{}
	for _, r := range t.rows {
		lsItemFields(r.items, acc, writes)
	}
	// writes elsewhere
	var tns []string
	for tn := range types {
		tns = append(tns, tn)
	}
	// owned sub-object types whose fields appear in the table
	for f := range acc {
		if i := strings.Index(f, "."); i > 0 && f[:i] != "pkg" && !types[f[:i]] {
			types[f[:i]] = true
			tns = append(tns, f[:i])
		}
	}
	sort.Strings(tns)
	elsewhere := map[string][]string{}
	for _, tn := range tns {
		for f, ws := range g.foreignWrites(tn, listed) {
			elsewhere[f] = append(elsewhere[f], ws...)
		}
	}
	for f, ws := range g.globalWrites() {
		elsewhere[f] = append(elsewhere[f], ws...)
	}
	var fs []string
	for f := range acc {
		fs = append(fs, f)
	}
	sort.Strings(fs)
	for _, f := range fs {
		if ws, ok := elsewhere[f]; ok {
			sort.Strings(ws)
			alarms = append(alarms, lsAlarm{f, "written outside the listed methods and outside constructors: " + strings.Join(ws, ", ")})
		} else if !writes[f] {
			t.initOnly = append(t.initOnly, f)
		}
	}
	var ef []string
	for f := range elsewhere {
		if !acc[f] {
			ef = append(ef, f+" <- "+strings.Join(elsewhere[f], ", "))
		}
	}
	sort.Strings(ef)
	for _, e := range ef {
		*comment = append(*comment, "written elsewhere, not accessed by the table: "+e)
	}
	// alarm rows: one unguarded write each
	seen := map[string]bool{}
	for _, a := range alarms {
		k := a.field + "|" + a.reason
		if seen[k] {
			continue
		}
		seen[k] = true
		t.rows = append(t.rows, lsRow{name: "ALARM " + a.field + ": " + a.reason, where: "not understood or unprotected => unguarded write",
			items: []*lsItem{{ev: lsEv{kind: "acc", field: a.field, write: true}}}})
	}
	return t
}

func (g *lsGen) items(b *strings.Builder, items []*lsItem, indent string) {
	b.WriteString("[")
	for i, it := range items {
		if i > 0 {
			b.WriteString(";")
		}
		b.WriteString("\n" + indent)
		e := it.ev
		switch e.kind {
		case "acc":
			fmt.Fprintf(b, "IAcc F_%s %v", lsIdent(e.field), e.write)
			g.fid(e.field)
		case "atomic":
			fmt.Fprintf(b, "IAtomic F_%s %v", lsIdent(e.field), e.write)
			g.fid(e.field)
		case "call":
			fmt.Fprintf(b, "ICall %s", lsCoqStr(e.name))
		case "acq":
			fmt.Fprintf(b, "ILocked MU_%s M%s ", lsIdent(e.field), e.mode)
			g.mid(e.field)
			g.items(b, it.body, indent+"  ")
		case "obegin":
			fmt.Fprintf(b, "IOnce O_%s ", lsIdent(e.field))
			g.oid(e.field)
			g.items(b, it.body, indent+"  ")
		}
	}
	b.WriteString("]")
}

func (g *lsGen) emitTable(b *strings.Builder, name string, t lsTable) {
	fmt.Fprintf(b, "Definition %s_methods : table := [", name)
	for i, r := range t.rows {
		if i > 0 {
			b.WriteString(";")
		}
		fmt.Fprintf(b, "\n  (* %s *)\n  (%s, ", strings.ReplaceAll(r.where, "*)", "* )"), lsCoqStr(r.name))
		g.items(b, r.items, "    ")
		b.WriteString(")")
	}
	b.WriteString("\n].\n\n")
	var io []string
	for _, f := range t.initOnly {
		io = append(io, "F_"+lsIdent(f))
		g.fid(f)
	}
	fmt.Fprintf(b, "(* fields the table only reads and nothing outside constructors writes *)\nDefinition %s_init_only : list field := [%s].\n\n", name, strings.Join(io, "; "))
}

var lsTMethods = []string{"Helper", "Name", "Log", "Logf", "Error", "Errorf", "Fail", "Failed", "Context", "Cleanup",
	"Skip", "Skipf", "SkipNow", "Fatal", "Fatalf", "FailNow", "fail", "failOnError", "failedError", "cleanup", "shouldLog",
	"runCleanup", "skippedError", "skip"} // the last three exist since the repairs eb62ae0 / b8a46e7 / 5d6bc10 (absent methods are skipped)

var lsGMethods = []string{"String", "value", "Draw", "Example", "Filter", "AsAny"}

func writeLocksets(repo, outDir string) error {
	p, err := lsLoad(repo)
	if err != nil {
		return err
	}
	if p.structs["T"] == nil || p.structs["Generator"] == nil {
		return fmt.Errorf("types T / Generator not found in %s", repo)
	}
	g := &lsGen{p: p, fields: map[string]int{}, mutexes: map[string]int{}, onces: map[string]int{}}
	var comments []string

	var tspecs [][2]string
	for _, m := range lsTMethods {
		tspecs = append(tspecs, [2]string{"T", m})
	}
	tt := g.table(tspecs, &comments)

	var gspecs [][2]string
	for _, m := range lsGMethods {
		gspecs = append(gspecs, [2]string{"Generator", m})
	}
	var impls []string
	for tn, ms := range p.methods {
		if tn == "Generator" {
			continue
		}
		if fd, ok := ms["value"]; ok && fd.Type.Params != nil && len(fd.Type.Params.List) == 1 && lsBaseType(fd.Type.Params.List[0].Type) == "T" {
			impls = append(impls, tn)
		}
	}
	sort.Strings(impls)
	for _, tn := range impls {
		gspecs = append(gspecs, [2]string{tn, "String"}, [2]string{tn, "value"})
	}
	gt := g.table(gspecs, &comments)

	var tb, gb strings.Builder
	g.emitTable(&tb, "t", tt)
	g.emitTable(&gb, "g", gt)

	var b strings.Builder
	b.WriteString("(* GENERATED from /repo by /verif/extract (locksets.go) - do not edit; rewritten (only when the content changes) on every check.\n")
	b.WriteString("   Per method: the accesses to the receiver's fields and to package variables in source order, nested in the\n")
	b.WriteString("   critical sections of its mutex (ILocked) and in sync.Once bodies (IOnce).  Rows named ALARM are constructs the\n")
	b.WriteString("   translator does not understand or that are unprotected by construction: one unguarded write each. *)\n")
	b.WriteString("From Coq Require Import List String.\nFrom Rapid Require Import Model.Lockset.\nImport ListNotations.\nLocal Open Scope string_scope.\n\n")
	for i, f := range g.forder {
		fmt.Fprintf(&b, "Definition F_%s : field := %d.\n", lsIdent(f), i)
	}
	b.WriteString("\nDefinition field_names : list (field * string) := [")
	for i, f := range g.forder {
		if i > 0 {
			b.WriteString("; ")
		}
		fmt.Fprintf(&b, "(%d, %s)", i, lsCoqStr(f))
	}
	b.WriteString("].\n\n")
	for i, f := range g.morder {
		fmt.Fprintf(&b, "Definition MU_%s : mutex := %d.\n", lsIdent(f), i)
	}
	for i, f := range g.oorder {
		fmt.Fprintf(&b, "Definition O_%s : once := %d.\n", lsIdent(f), i)
	}
	b.WriteString("\n")
	for _, c := range comments {
		fmt.Fprintf(&b, "(* %s *)\n", strings.ReplaceAll(c, "*)", "* )"))
	}
	b.WriteString("\n(* ---- *T: methods that may be called from goroutines started by the property ---- *)\n")
	b.WriteString(tb.String())
	b.WriteString("(* ---- *Generator[V] and every generatorImpl type (types with a method value(t *T)): " + strings.Join(impls, ", ") + " ---- *)\n")
	b.WriteString(gb.String())

	path := filepath.Join(outDir, "Locksets.v")
	content := b.String()
	old, err := os.ReadFile(path)
	if err == nil && string(old) == content {
		fmt.Printf("Locksets.v unchanged\n")
		return nil
	}
	if err := os.MkdirAll(outDir, 0775); err != nil {
		return err
	}
	if err := os.WriteFile(path, []byte(content), 0644); err != nil {
		return err
	}
	fmt.Printf("Locksets.v rewritten\n")
	return nil
}
