module verifextract

go 1.18
